#!/usr/bin/env python3
"""Regenerate the table of DESIGN.md §13 from seeded/*/meta.json (prints markdown)."""
import json, glob, os
rows=[]
for d in sorted(glob.glob('/verif/seeded/C*')):
    m=json.load(open(d+'/meta.json'))
    name=os.path.basename(d)
    rows.append((name, ', '.join(m['files_changed']), m['needs_to_manifest'].replace('|','/'), m['detected_by'].replace('|','/')))
print('| seed | files | needs, in order to manifest | detected by |')
print('|---|---|---|---|')
for r in rows: print('| '+' | '.join(r)+' |')
first_missed=[r[0] for r in rows if 'first MISSED' in r[3] or 'first INCONCLUSIVE' in r[3]]
print()
print(f'<!-- {len(rows)} seeds; first missed/inconclusive: {len(first_missed)}: {" ".join(first_missed)} -->')
