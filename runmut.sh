#!/bin/sh
# usage: runmut.sh <patch.diff> <ID>...   apply a seeded change to /repo, run quick checks, undo it.
P="$1"; shift
git -C /repo apply "$P" || { echo "patch does not apply"; exit 3; }
for ID in "$@"; do
  /verif/check "$ID" quick > /tmp/mut-$ID.out 2>&1; rc=$?
  echo "== $ID exit=$rc: $(grep -m1 -E 'VIOLATION|OK property|INCONCLUSIVE' /tmp/mut-$ID.out | cut -c1-160)"
  grep -m2 "sig=" /tmp/mut-$ID.out | cut -c1-260
done
git -C /repo checkout -- .
