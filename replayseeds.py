#!/usr/bin/env python3
"""Replay every seeded change against the check recorded as catching it, in parallel, WITHOUT touching
/repo or /verif: K scratch copies (worktree of /repo + copy of the harness, JBKV_VERIF_DIR) under /tmp/rs.

  replayseeds.py [K] [name-filter-regex]     results appended to /tmp/rs/results.txt, summary at the end
  replayseeds.py K @jobs.txt                 lines "<name> <patch> <check>..."; results in /tmp/rs2/results.txt
  RS_REV=<commit>                            use the harness as committed there instead of the working tree

A regression check of the harness itself (did a later strengthening lose an earlier detection?); it is
not one of the registered checks. Scratch trees are removed at the end.
"""
import json, os, re, shutil, subprocess, sys, glob, threading, time

K = int(sys.argv[1]) if len(sys.argv) > 1 else 3
# second argument: a regex over the seed names, or `@file`: a jobs file with lines
#   <name> <patch file> <check id> [<check id> ...]     (every named check is run; scratch root /tmp/rs2)
JOBSFILE = sys.argv[2][1:] if len(sys.argv) > 2 and sys.argv[2].startswith("@") else None
FILT = re.compile(sys.argv[2]) if len(sys.argv) > 2 and not JOBSFILE else None
RS = os.environ.get("RS_ROOT", "/tmp/rs2" if JOBSFILE else "/tmp/rs")


def sh(cmd, cwd=None, env=None, timeout=3600):
    p = subprocess.run(cmd, shell=True, cwd=cwd, env=env, stdout=subprocess.PIPE, stderr=subprocess.STDOUT, timeout=timeout)
    return p.returncode, p.stdout.decode(errors="replace")


def setup(k):
    root = f"{RS}/{k}"
    shutil.rmtree(root, ignore_errors=True)
    os.makedirs(root)
    rc, out = sh(f"git -C /repo worktree add --detach {root}/repo HEAD")
    assert rc == 0, out
    v = f"{root}/verif"
    os.makedirs(v)
    rev = os.environ.get("RS_REV")
    if rev:
        # the harness as committed at <rev> (to measure what an earlier harness catches)
        rc, out = sh(f"git -C /verif archive {rev} harness shim regress corpus .cargo known_findings.txt | tar -x -C {v}")
        assert rc == 0, out
        shutil.rmtree(f"{v}/harness/fuzz", ignore_errors=True)
    else:
        for d in ["harness", "shim", "regress", "corpus", ".cargo"]:
            shutil.copytree(f"/verif/{d}", f"{v}/{d}", ignore=shutil.ignore_patterns("target", "fuzz"))
        shutil.copy("/verif/known_findings.txt", f"{v}/known_findings.txt")
    for d in ["evidence", "replays", "target"]:
        os.makedirs(f"{v}/{d}", exist_ok=True)
    t = open(f"{v}/harness/Cargo.toml").read().replace('path = "/repo"', f'path = "{root}/repo"')
    open(f"{v}/harness/Cargo.toml", "w").write(t)
    c = open(f"{v}/.cargo/config.toml").read().replace('"/verif/target"', f'"{v}/target"')
    open(f"{v}/.cargo/config.toml", "w").write(c)
    rc, out = sh(f"cc -O2 -shared -fPIC -o {v}/target/faultfs.so {v}/shim/faultfs.c -ldl -lpthread")
    assert rc == 0, out
    return root


def env_for(root):
    return dict(os.environ, CARGO_NET_OFFLINE="true", JBKV_VERIF_DIR=f"{root}/verif", JBKV_QUIET_PANICS="1",
                JBKV_SCRATCH=f"/dev/shm/rs-{os.path.basename(RS)}-{os.path.basename(root)}", VERIF_SEED="1")


def worker(k, jobs, lock, results):
    root = setup(k)
    env = env_for(root)
    while True:
        with lock:
            if not jobs:
                break
            name, cid = jobs.pop(0)
        patch = f"/verif/seeded/{name}/patch.diff"
        if JOBSFILE:
            name, patch = name
        sh(f"git -C {root}/repo checkout -q -- .")
        rc, out = sh(f"git -C {root}/repo apply {patch}")
        if rc != 0:
            line = f"{name}: PATCH-DOES-NOT-APPLY"
        else:
            rc, out = sh("cargo build --release --offline", cwd=f"{root}/verif/harness", env=env)
            if rc == 0 and cid in ("C04", "C05", "C06"):
                rc, out = sh("cargo build --profile dbg --bin jbkv-reader --offline", cwd=f"{root}/verif/harness", env=env)
            if rc != 0:
                line = f"{name}: BUILD-FAILS"
            else:
                t0 = time.time()
                try:
                    rc, out = sh(f"{root}/verif/target/release/jbkv check {cid} " + os.environ.get("RS_TIER", "quick"), cwd=f"{root}/verif", env=env, timeout=int(os.environ.get("RS_TIMEOUT", "2400")))
                except subprocess.TimeoutExpired:
                    rc, out = 2, "timeout"
                m = re.search(r"sig=(\S+)", out)
                if rc == 1 and f"VIOLATION property={cid}" in out:
                    line = f"{name}: CAUGHT by {cid} quick ({m.group(1)[:80] if m else ''}) {time.time() - t0:.0f}s"
                else:
                    line = f"{name}: NOT-CAUGHT by {cid} quick (exit {rc}) {time.time() - t0:.0f}s"
        with lock:
            results.append(line)
            open(f"{RS}/results.txt", "a").write(line + "\n")
    sh(f"git -C {root}/repo checkout -q -- .")
    sh(f"git -C /repo worktree remove --force {root}/repo")
    shutil.rmtree(root, ignore_errors=True)
    shutil.rmtree(f"/dev/shm/rs-{os.path.basename(RS)}-{k}", ignore_errors=True)


def main():
    os.makedirs(RS, exist_ok=True)
    jobs = []
    if JOBSFILE:
        for l in open(JOBSFILE):
            w = l.split()
            for cid in w[2:]:
                jobs.append(((w[0], w[1]), cid))
    for d in sorted(glob.glob("/verif/seeded/*/")) if not JOBSFILE else []:
        name = os.path.basename(d.rstrip("/"))
        if FILT and not FILT.search(name):
            continue
        m = json.load(open(d + "meta.json"))["detected_by"]
        r = re.findall(r"(C\d\d) quick:", m)
        if not r and re.search(r"C\d\d thorough:", m):
            print(f"{name}: caught by a thorough tier only, not replayed here")
            continue
        jobs.append((name, r[0] if r else name[:3]))
    # slowest checks first
    cost = {"C06": 9, "C05": 6, "C09": 5, "C11": 3, "C08": 3}
    jobs.sort(key=lambda j: -cost.get(j[1], 1))
    lock = threading.Lock()
    results = []
    ts = [threading.Thread(target=worker, args=(k, jobs, lock, results)) for k in range(K)]
    for t in ts:
        t.start()
    for t in ts:
        t.join()
    sh("git -C /repo worktree prune")
    bad = [r for r in results if "CAUGHT by" not in r or "NOT-CAUGHT" in r]
    print(f"{len(results)} seeds replayed, {len(results) - len(bad)} caught, {len(bad)} not:")
    for b in bad:
        print("  " + b)


if __name__ == "__main__":
    main()
