//! E5 — libFuzzer supplement of C05/C06 (thorough tier only; can only ADD a violation).
//! bytes -> arbitrary::Unstructured -> (base container, edit script) -> in-process read.
//! In-target oracle: the C05 comparison with the pristine dump; any panic/abort of library
//! code is a C06 violation by construction. The failing case is written as a replay file
//! (base file bytes + edits) by a panic hook before libFuzzer aborts.
#![no_main]

use arbitrary::Unstructured;
use jbkv::container::Packaging;
use jbkv::faults::*;
use jbkv::fdump::*;
use jbkv::gen::Comp;
use libfuzzer_sys::fuzz_target;
use std::sync::{Mutex, OnceLock};

struct State {
    bases: Vec<Base>,
    pristine: Vec<FDump>,
    dirs: Vec<std::path::PathBuf>,
    _tmp: tempfile_like::Dir,
}

mod tempfile_like {
    pub struct Dir(pub std::path::PathBuf);
    impl Drop for Dir {
        fn drop(&mut self) {
            let _ = std::fs::remove_dir_all(&self.0);
        }
    }
}

static STATE: OnceLock<State> = OnceLock::new();
static CURRENT: Mutex<Option<(usize, Vec<Edit>)>> = Mutex::new(None);

fn state() -> &'static State {
    STATE.get_or_init(|| {
        let root = std::path::PathBuf::from(format!("/dev/shm/jbkv-fuzz-{}", std::process::id()));
        std::fs::create_dir_all(&root).unwrap();
        let mut bases = vec![];
        let mut pristine = vec![];
        let mut dirs = vec![];
        let comps = [Comp::None, Comp::Zstd(5), Comp::Lz4(3), Comp::Lzma(3)];
        for (i, c) in comps.iter().enumerate() {
            let spec = base_spec(i % 2, Packaging::OneFile, *c, 7); // the two small shapes (shapes 2.. are the big-table bases)
            let b = make_base(&format!("fuzz{i}"), &spec, &root, vec![]).expect("base builds");
            let d = root.join(format!("run{i}"));
            std::fs::create_dir_all(&d).unwrap();
            for (f, data) in b.files.iter().zip(b.data.iter()) {
                std::fs::write(d.join(f), data).unwrap();
            }
            let job = Job { dir: d.to_string_lossy().to_string(), main: b.main.clone(), files: b.files.clone(), index_names: b.index_names.clone(), addresses: b.addresses.clone(), full: true, concurrent: 0 };
            pristine.push(run_job(&job));
            bases.push(b);
            dirs.push(d);
        }
        let default = std::panic::take_hook();
        std::panic::set_hook(Box::new(move |info| {
            // save the case in flight as a replay file (C06: library panic; C05: oracle panic)
            if let Ok(cur) = CURRENT.try_lock() {
                if let (Some((bi, edits)), Some(st)) = (cur.as_ref(), STATE.get()) {
                    let msg = info.to_string();
                    let id = if msg.contains("C05 violation") { "C05" } else { "C06" };
                    let r = to_replay(&st.bases[*bi], edits, Profile::Release, None);
                    let saved = jbkv::engine::SavedFailure { property: id.into(), sig: format!("fuzz:{}", jbkv::engine::normalize_sig(&msg)), msg: msg.clone(), case: serde_json::to_value(r).unwrap(), note: "found by the libFuzzer target reader_edits".into() };
                    let rdir = format!("{}/replays", jbkv::engine::verif_dir());
                    let _ = std::fs::create_dir_all(&rdir);
                    let p = format!("{rdir}/{id}-fuzz-{:016x}.json", jbkv::engine::hash_str(&format!("{edits:?}{bi}")));
                    let _ = std::fs::write(&p, serde_json::to_string_pretty(&saved).unwrap());
                    eprintln!("FUZZ-REPLAY {p}");
                }
            }
            default(info);
        }));
        State { bases, pristine, dirs, _tmp: tempfile_like::Dir(root) }
    })
}

fn decode(u: &mut Unstructured, st: &State) -> arbitrary::Result<(usize, Vec<Edit>)> {
    let bi = u.int_in_range(0..=st.bases.len() - 1)?;
    let len = st.bases[bi].data[0].len() as u32;
    let n = u.int_in_range(1..=4)?;
    let mut edits = vec![];
    for _ in 0..n {
        let pos = u.int_in_range(0..=len - 1)?;
        edits.push(match u.int_in_range(0..=5)? {
            0 | 1 => Edit::Xor { file: 0, pos, mask: u.int_in_range(1..=255)? },
            2 => Edit::Zero { file: 0, start: pos, len: u.int_in_range(1..=64)? },
            3 => Edit::Overwrite { file: 0, start: pos, len: u.int_in_range(1..=64)?, seed: u.arbitrary()? },
            4 => Edit::Truncate { file: 0, len: pos },
            _ => Edit::Append { file: 0, len: u.int_in_range(1..=128)?, seed: u.arbitrary()? },
        });
    }
    Ok((bi, edits))
}

fuzz_target!(|data: &[u8]| {
    let st = state();
    let mut u = Unstructured::new(data);
    let Ok((bi, edits)) = decode(&mut u, st) else { return };
    *CURRENT.lock().unwrap() = Some((bi, edits.clone()));
    let base = &st.bases[bi];
    let changed = apply_edits(base, &edits);
    for (fi, d) in &changed {
        std::fs::write(st.dirs[bi].join(&base.files[*fi]), d).unwrap();
    }
    let job = Job { dir: st.dirs[bi].to_string_lossy().to_string(), main: base.main.clone(), files: base.files.clone(), index_names: base.index_names.clone(), addresses: base.addresses.clone(), full: true, concurrent: 0 };
    let d = run_job(&job);
    // same-length scripts only are judged by C05
    let same_len = !edits.iter().any(|e| matches!(e, Edit::Truncate { .. } | Edit::Append { .. }));
    if same_len {
        if let Some(f) = judge_c05(&st.pristine[bi], &d) {
            panic!("C05 violation: {} {}", f.sig, f.msg);
        }
    }
    for fi in changed.keys() {
        std::fs::write(st.dirs[bi].join(&base.files[*fi]), &base.data[*fi]).unwrap();
    }
    *CURRENT.lock().unwrap() = None;
});
