//! jbkv — property-based verification harness for jubako (see /verif/DESIGN.md)
#![allow(clippy::type_complexity)]
#![allow(dead_code)]

use jbkv::engine::*;
use jbkv::props;
use std::path::Path;

macro_rules! dispatch {
    ($id:expr, $f:ident, $($arg:expr),*) => {
        match $id {
            "C01" => $f::<props::c01::C01>($($arg),*),
            "C02" => $f::<props::c02::C02>($($arg),*),
            "C03" => $f::<props::c03::C03>($($arg),*),
            "C07" => $f::<props::c07::C07>($($arg),*),
            "C08" => $f::<props::c08::C08>($($arg),*),
            "C10" => $f::<props::c10::C10>($($arg),*),
            "C11" => $f::<props::c11::C11>($($arg),*),
            "C12" => $f::<props::c12::C12>($($arg),*),
            "C13" => $f::<props::c13::C13>($($arg),*),
            "C14" => $f::<props::c14::C14>($($arg),*),
            "C15" => $f::<props::c15::C15>($($arg),*),
            "C16" => $f::<props::c16::C16>($($arg),*),
            other => {
                eprintln!("unknown property {other}");
                std::process::exit(2)
            }
        }
    };
}

fn usage() -> ! {
    eprintln!("usage: jbkv check <ID> <quick|thorough> | replay <ID> <file> | worker ... | replay-child <ID> <file>");
    std::process::exit(2)
}

fn main() {
    let args: Vec<String> = std::env::args().collect();
    if args.len() < 2 {
        usage();
    }
    let code = match args[1].as_str() {
        "check" => {
            if args.len() < 4 {
                usage();
            }
            let tier = Tier::parse(&args[3]).unwrap_or_else(|| usage());
            match args[2].as_str() {
                "C04" | "C05" | "C06" => jbkv::faults::check_cmd(&args[2], tier),
                "C09" => jbkv::crash::check_cmd(tier),
                id => dispatch!(id, run_check, tier),
            }
        }
        "worker" => {
            // worker <ID> <tier> <seed> <idx> <n> <outdir>
            let tier = Tier::parse(&args[3]).unwrap();
            let seed: u64 = args[4].parse().unwrap();
            let idx: usize = args[5].parse().unwrap();
            let n: usize = args[6].parse().unwrap();
            let outdir = Path::new(&args[7]);
            dispatch!(args[2].as_str(), run_worker, tier, seed, idx, n, outdir);
            0
        }
        "replay" => {
            if args.len() < 4 {
                usage();
            }
            match args[2].as_str() {
                "C04" | "C05" | "C06" | "C09" => match replay_in_child(&args[2], Path::new(&args[3])) {
                    ReplayOutcome::Pass => {
                        println!("PASS property={} replay={}", args[2], args[3]);
                        0
                    }
                    other => {
                        println!("VIOLATION property={} replay={}", args[2], args[3]);
                        eprintln!("  {other:?}");
                        1
                    }
                },
                id => dispatch!(id, replay_cmd, Path::new(&args[3])),
            }
        }
        "create-child" => jbkv::crash::create_child_cmd(Path::new(&args[2]), Path::new(&args[3]), &args[4]),
        "gen-corpus" => props::c14::gen_corpus(Path::new(&args[2]), args[3].parse().unwrap(), &args[4]),
        "replay-child" => match args[2].as_str() {
            "C04" | "C05" | "C06" => jbkv::faults::replay_child_cmd(&args[2], Path::new(&args[3])),
            "C09" => jbkv::crash::replay_child_cmd(Path::new(&args[3])),
            id => dispatch!(id, replay_child, Path::new(&args[3])),
        },
        _ => usage(),
    };
    std::process::exit(code);
}
