//! E2 — fault enumerator (DESIGN 4.1): byte alterations of created containers, executed by
//! reader child processes (`jbkv-reader`, dbg and release profiles), judged per property:
//!   C04 altered checksummed bytes make the checks fail,
//!   C05 damaged metadata is reported, never silently decoded differently,
//!   C06 reading damaged files never crashes / hangs.

use crate::container::*;
use crate::dirgen::*;
use crate::engine::*;
use crate::fdump::*;
use crate::gen::*;
use crate::indep;
use serde::{Deserialize, Serialize};
use std::collections::{BTreeMap, BTreeSet};
use std::io::{BufRead, BufReader, Write};
use std::path::{Path, PathBuf};
use std::sync::atomic::{AtomicUsize, Ordering};
use std::sync::{mpsc, Arc, Mutex};
use std::time::{Duration, Instant};

#[derive(Serialize, Deserialize, Clone, Debug, PartialEq, Eq, Hash)]
pub enum Edit {
    Xor { file: usize, pos: u32, mask: u8 },
    /// xor a byte of a CRC-protected block and recompute that block's CRC: what the block CRCs
    /// cannot see, the pack checksum must (C04 only)
    XorFixCrc { file: usize, pos: u32, mask: u8, bstart: u32, blen: u32 },
    Zero { file: usize, start: u32, len: u32 },
    Overwrite { file: usize, start: u32, len: u32, seed: u32 },
    Truncate { file: usize, len: u32 },
    Append { file: usize, len: u32, seed: u32 },
    /// whole file replaced: 0 empty, 1 random, 2 text, 3 "jbk"+random, 4 another valid container
    Replace { file: usize, kind: u8, len: u32, seed: u32 },
    /// C04 live phase: the file is NOT altered beforehand; the reader child opens the container,
    /// reads it, xors this byte in place and reads and checks again through the same objects
    LiveXor { file: usize, pos: u32, mask: u8 },
}

#[derive(Serialize, Deserialize, Clone, Copy, Debug, PartialEq, Eq, Hash, PartialOrd, Ord)]
pub enum Profile {
    Release,
    Dbg,
}

impl Profile {
    fn exe(self) -> PathBuf {
        match self {
            Profile::Release => PathBuf::from(format!("{}/target/release/jbkv-reader", crate::engine::verif_dir())),
            Profile::Dbg => PathBuf::from(format!("{}/target/dbg/jbkv-reader", crate::engine::verif_dir())),
        }
    }
}

pub struct Base {
    pub name: String,
    pub files: Vec<String>,
    pub main: String,
    pub index_names: Vec<String>,
    pub addresses: Vec<(u16, u32)>,
    pub data: Vec<Vec<u8>>, // per file
    pub maps: Vec<Option<indep::FileDec>>,
    pub packaging: Packaging,
    pub comp: Comp,
    pub pristine: BTreeMap<Profile, FDump>,
    /// a different valid container file (for Replace kind 4)
    pub other: Vec<u8>,
    /// big bases are not swept exhaustively: these (file, start, end) ranges are, the rest is sampled
    pub targeted: Vec<(usize, u64, u64)>,
    /// number of concurrent reader threads the child adds after its dump (C06)
    pub concurrent: u8,
}

#[derive(Clone, Debug)]
pub struct FaultCase {
    pub base: usize,
    pub edits: Vec<Edit>,
}

#[derive(Clone, Debug)]
pub enum Outcome {
    Value(Box<FDump>),
    Died { class: String, detail: String },
    Blocked,
    /// one thread does nothing but sched_yield for tens of seconds while no other thread of the
    /// process can run: it waits for a change nobody is left to make (a spin-wait gone stale)
    Spinning,
    Timeout,
}

impl Outcome {
    pub fn class(&self) -> String {
        match self {
            Outcome::Value(_) => "value".into(),
            Outcome::Died { class, .. } => class.clone(),
            Outcome::Blocked => "blocked".into(),
            Outcome::Spinning => "spinning".into(),
            Outcome::Timeout => "timeout".into(),
        }
    }
}

// ---------------------------------------------------------------------------------------
// edits

pub fn apply_edits(base: &Base, edits: &[Edit]) -> BTreeMap<usize, Vec<u8>> {
    let mut changed: BTreeMap<usize, Vec<u8>> = BTreeMap::new();
    for e in edits {
        let file = match e {
            Edit::Xor { file, .. } | Edit::XorFixCrc { file, .. } | Edit::Zero { file, .. } | Edit::Overwrite { file, .. } | Edit::Truncate { file, .. } | Edit::Append { file, .. } | Edit::Replace { file, .. } | Edit::LiveXor { file, .. } => *file,
        };
        let d = changed.entry(file).or_insert_with(|| base.data[file].clone());
        match e {
            Edit::Xor { pos, mask, .. } => {
                if (*pos as usize) < d.len() {
                    d[*pos as usize] ^= *mask;
                }
            }
            Edit::XorFixCrc { pos, mask, bstart, blen, .. } => {
                let (bs, bl) = (*bstart as usize, *blen as usize);
                if (*pos as usize) < d.len() && bs + bl + 4 <= d.len() {
                    d[*pos as usize] ^= *mask;
                    let crc = crate::indep::crc32(&d[bs..bs + bl]);
                    d[bs + bl..bs + bl + 4].copy_from_slice(&crc.to_be_bytes());
                }
            }
            Edit::Zero { start, len, .. } => {
                let (s, l) = (*start as usize, *len as usize);
                let end = (s + l).min(d.len());
                if s < end {
                    d[s..end].fill(0);
                }
            }
            Edit::Overwrite { start, len, seed, .. } => {
                let (s, l) = (*start as usize, *len as usize);
                let end = (s + l).min(d.len());
                if s < end {
                    let r = content_bytes(*seed, end - s, Entropy::High);
                    d[s..end].copy_from_slice(&r);
                }
            }
            // the file is written out pristine (and restored afterwards): the child alters it itself
            Edit::LiveXor { .. } => {}
            Edit::Truncate { len, .. } => d.truncate(*len as usize),
            Edit::Append { len, seed, .. } => d.extend(content_bytes(*seed, *len as usize, Entropy::High)),
            Edit::Replace { kind, len, seed, .. } => {
                *d = match kind {
                    0 => vec![],
                    1 => content_bytes(*seed, *len as usize, Entropy::High),
                    2 => content_bytes(*seed, *len as usize, Entropy::Text),
                    3 => {
                        let mut v = b"jbkC".to_vec();
                        v.extend(content_bytes(*seed, *len as usize, Entropy::High));
                        v
                    }
                    _ => base.other.clone(),
                }
            }
        }
    }
    changed
}

// ---------------------------------------------------------------------------------------
// reader children

struct Child {
    proc: std::process::Child,
    stdin: std::process::ChildStdin,
    rx: mpsc::Receiver<String>,
    stderr_path: PathBuf,
    profile: Profile,
}

impl Child {
    fn spawn(profile: Profile, scratch: &Path, tag: usize) -> Child {
        let stderr_path = scratch.join(format!("stderr-{tag}-{profile:?}.txt"));
        let errf = std::fs::File::create(&stderr_path).unwrap();
        let mut proc = std::process::Command::new(profile.exe())
            .stdin(std::process::Stdio::piped())
            .stdout(std::process::Stdio::piped())
            .stderr(std::process::Stdio::from(errf))
            .env("RUST_BACKTRACE", "0")
            .spawn()
            .unwrap_or_else(|e| panic!("cannot spawn {:?}: {e}", profile.exe()));
        let stdin = proc.stdin.take().unwrap();
        let stdout = proc.stdout.take().unwrap();
        let (tx, rx) = mpsc::channel();
        std::thread::spawn(move || {
            let r = BufReader::new(stdout);
            for line in r.lines() {
                match line {
                    Ok(l) => {
                        if tx.send(l).is_err() {
                            break;
                        }
                    }
                    Err(_) => break,
                }
            }
        });
        Child { proc, stdin, rx, stderr_path, profile }
    }

    fn threads_blocked(&self) -> Option<(bool, u64)> {
        // (all threads sleeping, total cpu ticks)
        let pid = self.proc.id();
        let mut all_sleep = true;
        let mut ticks = 0u64;
        let tasks = std::fs::read_dir(format!("/proc/{pid}/task")).ok()?;
        for t in tasks.flatten() {
            let stat = std::fs::read_to_string(t.path().join("stat")).ok()?;
            let rest = stat.rsplit_once(')')?.1;
            let f: Vec<&str> = rest.split_whitespace().collect();
            if f.first().map_or(true, |s| *s != "S") {
                all_sleep = false;
            }
            ticks += f.get(11).and_then(|x| x.parse::<u64>().ok()).unwrap_or(0) + f.get(12).and_then(|x| x.parse::<u64>().ok()).unwrap_or(0);
        }
        Some((all_sleep, ticks))
    }

    /// One sampling window: exactly one thread of the reader is not asleep (the others, if any,
    /// sleep in a futex wait without timeout) and, traced for 1.5 s (`strace -c`), the process
    /// makes thousands of system calls every one of which is sched_yield. Such a thread runs a loop
    /// around sched_yield whose exit depends on memory that no other thread of the process can
    /// change any more. (The `syscall` file of /proc cannot show this: a yield returns at once.)
    fn yield_spin_window(&self) -> bool {
        let pid = self.proc.id();
        let Ok(tasks) = std::fs::read_dir(format!("/proc/{pid}/task")) else { return false };
        let mut awake = 0;
        for t in tasks.flatten() {
            let Ok(stat) = std::fs::read_to_string(t.path().join("stat")) else { return false };
            let Some((_, rest)) = stat.rsplit_once(')') else { return false };
            let state = rest.split_whitespace().next().unwrap_or("");
            let sc = std::fs::read_to_string(t.path().join("syscall")).unwrap_or_default();
            let f: Vec<&str> = sc.split_whitespace().collect();
            let futex_forever = f.first() == Some(&"202") && f.get(4).map_or(false, |a| *a == "0x0");
            if !(state == "S" && futex_forever) {
                awake += 1;
            }
        }
        if awake != 1 {
            return false;
        }
        let out = self.stderr_path.with_extension("strace");
        let _ = std::fs::remove_file(&out);
        let st = std::process::Command::new("timeout")
            .args(["-s", "INT", "1.5", "strace", "-f", "-c", "-q", "-p", &pid.to_string(), "-o"])
            .arg(&out)
            .stdout(std::process::Stdio::null())
            .stderr(std::process::Stdio::null())
            .status();
        if st.is_err() {
            return false;
        }
        let txt = std::fs::read_to_string(&out).unwrap_or_default();
        let _ = std::fs::remove_file(&out);
        // summary lines: "% time seconds usecs/call calls [errors] syscall"
        let mut yields = 0u64;
        let mut others = 0u64;
        for l in txt.lines() {
            let w: Vec<&str> = l.split_whitespace().collect();
            if w.len() < 5 || !w[0].chars().next().map_or(false, |c| c.is_ascii_digit()) {
                continue;
            }
            let name = w[w.len() - 1];
            if name == "total" {
                continue;
            }
            let calls: u64 = w[3].parse().unwrap_or(0);
            if name == "sched_yield" {
                yields += calls;
            } else {
                others += calls;
            }
        }
        yields >= 1000 && others == 0
    }

    fn run(&mut self, job: &Job, soft: Duration, hard: Duration) -> (Outcome, bool) {
        // returns (outcome, child_must_be_restarted)
        let line = serde_json::to_string(job).unwrap();
        if writeln!(self.stdin, "{line}").and_then(|_| self.stdin.flush()).is_err() {
            return (self.death(), true);
        }
        let t0 = Instant::now();
        let mut spin_seen: Option<Instant> = None;
        loop {
            match self.rx.recv_timeout(soft) {
                Ok(l) => {
                    if let Some(j) = l.strip_prefix("OK ") {
                        match serde_json::from_str::<FDump>(j) {
                            Ok(d) => return (Outcome::Value(Box::new(d)), false),
                            Err(e) => return (Outcome::Died { class: "protocol".into(), detail: format!("bad dump json: {e}") }, true),
                        }
                    } else if l.starts_with("NOPROGRESS") {
                        let _ = self.proc.wait();
                        return (Outcome::Died { class: "no-progress".into(), detail: l }, true);
                    } else {
                        continue;
                    }
                }
                Err(mpsc::RecvTimeoutError::Disconnected) => return (self.death(), true),
                Err(mpsc::RecvTimeoutError::Timeout) => {
                    // blocked forever? every thread asleep and no cpu consumed over one second
                    if let Some((s1, t1)) = self.threads_blocked() {
                        std::thread::sleep(Duration::from_secs(1));
                        if let Some((s2, t2)) = self.threads_blocked() {
                            if s1 && s2 && t1 == t2 {
                                // answer may have arrived meanwhile
                                if let Ok(l) = self.rx.try_recv() {
                                    if let Some(j) = l.strip_prefix("OK ") {
                                        if let Ok(d) = serde_json::from_str::<FDump>(j) {
                                            return (Outcome::Value(Box::new(d)), false);
                                        }
                                    }
                                }
                                let _ = self.proc.kill();
                                let _ = self.proc.wait();
                                return (Outcome::Blocked, true);
                            }
                        }
                    }
                    // spinning forever? two windows of pure sched_yield at least 20 s apart
                    if t0.elapsed() > Duration::from_secs(24) && self.yield_spin_window() && spin_seen.map_or(false, |t: Instant| t.elapsed() > Duration::from_secs(20)) {
                        let _ = self.proc.kill();
                        let _ = self.proc.wait();
                        return (Outcome::Spinning, true);
                    }
                    if spin_seen.is_none() && self.yield_spin_window() {
                        spin_seen = Some(Instant::now());
                    }
                    if t0.elapsed() > hard {
                        let _ = self.proc.kill();
                        let _ = self.proc.wait();
                        return (Outcome::Timeout, true);
                    }
                }
            }
        }
    }

    fn death(&mut self) -> Outcome {
        let status = self.proc.wait();
        let stderr = std::fs::read_to_string(&self.stderr_path).unwrap_or_default();
        let panic_line = stderr.lines().find(|l| l.contains("panicked at")).map(|l| l.to_string());
        let msg_line = panic_line.as_ref().and_then(|_| {
            let mut it = stderr.lines().skip_while(|l| !l.contains("panicked at"));
            it.next();
            it.next().map(|s| s.to_string())
        });
        let last = stderr.lines().rev().find(|l| !l.trim().is_empty()).unwrap_or("").to_string();
        let detail = match (&panic_line, &msg_line) {
            (Some(p), Some(m)) => format!("{} {}", p, m),
            (Some(p), None) => p.clone(),
            _ => last,
        };
        use std::os::unix::process::ExitStatusExt;
        let class = match status {
            Ok(s) => match (s.code(), s.signal()) {
                (Some(101), _) => "panic".to_string(),
                (Some(3), _) => "no-progress".to_string(),
                (Some(c), _) => format!("exit({c})"),
                (None, Some(6)) => "abort".to_string(),
                (None, Some(n)) => format!("signal({n})"),
                _ => "unknown".to_string(),
            },
            Err(_) => "unknown".to_string(),
        };
        Outcome::Died { class, detail }
    }
}

impl Drop for Child {
    fn drop(&mut self) {
        let _ = self.proc.kill();
        let _ = self.proc.wait();
    }
}

// ---------------------------------------------------------------------------------------
// bases

pub fn base_spec(shape: usize, packaging: Packaging, comp: Comp, seed: u32) -> ContainerSpec {
    let c = |len: u32, ent: Entropy, hint: Hint, k: u32| ContentSpec { len, ent, seed: seed.wrapping_mul(31).wrapping_add(k), hint, source: Source::Mem, dup_of: None, flip: None };
    let rv = |x: u64, base: u8, cut: u32| RawVal { x, arr: ArrSpec { base, cut, tweak: 0 } };
    if shape == 3 {
        // one large compressed cluster (hundreds of KiB decoded, many decode chunks, several
        // compressor blocks) with blobs spread over it, plus two raw contents
        let mut contents = vec![];
        for i in 0..40u32 {
            contents.push(c(8192 + 13 * i, if i % 4 == 3 { Entropy::Low } else { Entropy::Text }, Hint::Yes, 300 + i));
        }
        contents.push(c(100, Entropy::High, Hint::No, 7));
        contents.push(c(0, Entropy::Zero, Hint::No, 8));
        let mut spec = base_spec(1, packaging, comp, seed);
        spec.contents = contents;
        spec.extra_packs.clear();
        return spec;
    }
    if shape == 5 {
        // "big directory": 10 000 entries, entry data and a plain value store above 64 KiB each (every
        // part of the directory pack above the 4 KiB below which the reader copies into memory)
        let mut spec = base_spec(1, packaging, comp, seed);
        spec.extra_packs.clear();
        spec.dir = DirSpec {
            vstores: vec![StoreKind::Plain],
            estores: vec![EStoreSpec {
                common: vec![PropSpec { kind: PKind::UInt, constant: false }, PropSpec { kind: PKind::Array { fixed: 2, store: 0 }, constant: false }],
                variants: vec![],
                sort: vec![],
                // 10 000 entries: more than 64 KiB of entry data (and of value-store data)
                entries: (0..10_000u64).map(|i| RawEntry { variant: 0, vals: vec![rv(i * 7 + 1, 0, 0), rv(0, 10, i as u32)] }).collect(),
                windows: vec![Win::Whole],
            }],
            linked: false,
            index_meta: false,
        };
        return spec;
    }
    if shape == 6 || shape == 7 {
        // "exact KiB blocks": a content-info table of 255 (511) records = 1020 (2044) bytes, i.e.
        // exactly 1 (2) KiB with its CRC, and an entry store whose data block is 255 x 4 (510 x 4)
        // bytes: block sizes that are exact multiples of the reader's 1 KiB buffer
        let n = if shape == 6 { 255u32 } else { 511 };
        let mut spec = base_spec(1, packaging, comp, seed);
        spec.contents = (0..n).map(|i| c(1 + i % 2, Entropy::Text, if i % 5 == 0 { Hint::Yes } else { Hint::No }, 12000 + i)).collect();
        spec.extra_packs.clear();
        let ne = if shape == 6 { 255u64 } else { 510 };
        spec.dir = DirSpec {
            vstores: vec![],
            estores: vec![EStoreSpec {
                common: vec![PropSpec { kind: PKind::UInt, constant: false }],
                variants: vec![],
                sort: vec![],
                entries: (0..ne).map(|i| RawEntry { variant: 0, vals: vec![rv(0x0100_0000 + i * 0x0001_0101, 0, 0)] }).collect(),
                // twelve indexes over the store (a directory pack with many indexes, looked up by name)
                windows: (0..12u16).map(|k| if k == 0 { Win::Whole } else { Win::Interior(k * 5000, 3000 + k * 100) }).collect(),
            }],
            linked: false,
            index_meta: false,
        };
        return spec;
    }
    if shape == 8 {
        // content-info table above 1 MiB (more than 262144 contents)
        let mut spec = base_spec(1, packaging, comp, seed);
        spec.contents = (0..270_000u32).map(|i| c(i % 2, Entropy::Text, Hint::No, 40_000 + i)).collect();
        spec.extra_packs.clear();
        return spec;
    }
    if shape == 4 {
        // content-info table above 64 KiB
        let mut spec = base_spec(1, packaging, comp, seed);
        spec.contents = (0..20000u32).map(|i| c(1 + i % 3, Entropy::Text, Hint::No, 9000 + i)).collect();
        spec.extra_packs.clear();
        return spec;
    }
    if shape == 2 {
        // "big tables": more than 1023 contents and clusters of more than 2046 blobs, so that the
        // content-info table and the cluster tails exceed 4 KiB (the mmap path of the file source)
        let mut contents = vec![];
        for i in 0..2100u32 {
            contents.push(c(1 + i % 2, Entropy::Text, Hint::No, 100 + i));
        }
        for i in 0..2100u32 {
            contents.push(c(1 + i % 3, Entropy::Text, Hint::Yes, 5000 + i));
        }
        let mut spec = base_spec(1, packaging, comp, seed);
        spec.contents = contents;
        spec.extra_packs.clear();
        return spec;
    }
    match shape % 2 {
        0 => ContainerSpec {
            packaging,
            comp,
            contents: vec![c(40, Entropy::Text, Hint::No, 1), c(700, Entropy::Low, Hint::Yes, 2), c(0, Entropy::Zero, Hint::Yes, 3), c(9, Entropy::Text, Hint::Yes, 4)],
            extra_packs: vec![],
            dedup: false,
            dir: DirSpec {
                vstores: vec![StoreKind::Plain, StoreKind::Indexed],
                estores: vec![EStoreSpec {
                    common: vec![
                        PropSpec { kind: PKind::Array { fixed: 2, store: 0 }, constant: false },
                        PropSpec { kind: PKind::Content, constant: false },
                        PropSpec { kind: PKind::UInt, constant: false },
                        PropSpec { kind: PKind::SInt, constant: false },
                    ],
                    variants: vec![vec![PropSpec { kind: PKind::UInt, constant: false }], vec![PropSpec { kind: PKind::Array { fixed: 0, store: 1 }, constant: false }]],
                    sort: vec![],
                    entries: (0..4u64)
                        .map(|i| RawEntry {
                            variant: if i % 2 == 0 { 0 } else { 65535 },
                            vals: vec![rv(i, 6, 5 + i as u32), rv(i * 20000, 0, 0), rv(1000 * i + 7, 0, 0), rv((-300i64 * i as i64) as u64, 0, 0), rv(0, 0, 0), rv(0, 0, 0), rv(70000 + i, 9, 3 + i as u32)],
                        })
                        .collect(),
                    windows: vec![Win::Whole, Win::Interior(20000, 40000)],
                }],
                linked: true,
                index_meta: false,
            },
        },
        _ => ContainerSpec {
            packaging,
            comp,
            contents: vec![c(120, Entropy::Text, Hint::Yes, 5), c(33, Entropy::High, Hint::No, 6), c(0, Entropy::Zero, Hint::No, 7)],
            extra_packs: vec![ExtraPack { comp, contents: vec![c(64, Entropy::Low, Hint::Yes, 8), c(5, Entropy::Text, Hint::No, 9)], id_class: 0, place: 0 }],
            dedup: false,
            dir: DirSpec {
                vstores: vec![StoreKind::Indexed],
                estores: vec![EStoreSpec {
                    common: vec![
                        PropSpec { kind: PKind::Array { fixed: 3, store: 0 }, constant: false },
                        PropSpec { kind: PKind::Content, constant: false },
                        PropSpec { kind: PKind::Ref, constant: false },
                        PropSpec { kind: PKind::UInt, constant: true },
                    ],
                    variants: vec![],
                    sort: vec![0],
                    entries: (0..5u64).map(|i| RawEntry { variant: 0, vals: vec![rv(0, 6, 30 - 4 * i as u32), rv(i * 13000, 0, 0), rv(i * 9000, 0, 0), rv(77, 0, 0)] }).collect(),
                    // two indexes over ONE entry store (and one value store): the second one asks the
                    // store caches for what the first one asked already
                    windows: vec![Win::Whole, Win::Suffix(30000)],
                }],
                linked: true,
                index_meta: true,
            },
        },
    }
}

pub fn make_base(name: &str, spec: &ContainerSpec, scratch: &Path, other: Vec<u8>) -> Result<Base, Failure> {
    let dir = scratch.join(format!("base-{name}"));
    let _ = std::fs::remove_dir_all(&dir);
    std::fs::create_dir_all(&dir).unwrap();
    let built = build(spec, &dir, "a.jbk", None)?;
    let files = built.files.clone();
    let data: Vec<Vec<u8>> = files.iter().map(|f| std::fs::read(dir.join(f)).unwrap()).collect();
    let maps = data.iter().map(|d| indep::decode_file(d).ok()).collect();
    let (_, index_names, addresses) = model_dump(&built.model);
    Ok(Base {
        name: name.to_string(),
        files,
        main: "a.jbk".into(),
        index_names,
        addresses,
        data,
        maps,
        packaging: spec.packaging,
        comp: spec.comp,
        pristine: BTreeMap::new(),
        other,
        targeted: vec![],
        concurrent: 0,
    })
}

/// Three LOOSE pack files written by the low-level creators (what the repository's own tests do):
/// `c.jbkc` a bare content pack (`ncontents` contents; 0 = the content-info table and the
/// cluster table are zero-length blocks), `d.jbkd` a bare directory pack, `a.jbk` a bare manifest
/// pack recording the two others by file name. Read through Container::new AND, file by file,
/// through ContentPack/DirectoryPack/ManifestPack::new on a whole-file reader.
pub fn make_bare_packs_base(name: &str, comp: Comp, seed: u32, ncontents: u32, scratch: &Path, other: Vec<u8>) -> Result<Base, Failure> {
    use jubako as jbk;
    let dir = scratch.join(format!("base-{name}"));
    let _ = std::fs::remove_dir_all(&dir);
    std::fs::create_dir_all(&dir).unwrap();
    let io = |e: std::io::Error| Failure::new("create-error", format!("bare-packs base: {e}"));
    let jb = |e: jbk::creator::Error| Failure::new("create-error", format!("bare-packs base: {e}"));
    let cpath = jbk::Utf8PathBuf::from_path_buf(dir.join("c.jbkc")).unwrap();
    let mut cp = jbk::creator::ContentPackCreator::new(&cpath, jbk::PackId::from(1), vendor(), Default::default(), comp.to_jbk()).map_err(io)?;
    let mut addresses: Vec<(u16, u32)> = vec![];
    for i in 0..ncontents {
        let b = content_bytes(seed ^ (7000 + i), if i == 2 { 0 } else { 20 + 150 * (i as usize % 5) }, if i % 2 == 0 { Entropy::Text } else { Entropy::High });
        let a = cp.add_content(Box::new(std::io::Cursor::new(b)), if i % 2 == 0 { jbk::creator::CompHint::Yes } else { jbk::creator::CompHint::No }).map_err(io)?;
        addresses.push((a.pack_id.into_u16(), a.content_id.into_u32()));
    }
    let (_, cdata) = cp.finalize().map_err(io)?;
    let dspec = if ncontents == 0 { DirSpec { vstores: vec![], estores: vec![], linked: false, index_meta: false } } else { base_spec(1, Packaging::OneFile, comp, seed).dir };
    let dmodel = build_model(&dspec, &addresses);
    let mut dp = jbk::creator::DirectoryPackCreator::new(jbk::PackId::from(0), vendor(), Default::default());
    build_dir(&dmodel).install(&mut dp);
    let fin = dp.finalize().map_err(io)?;
    let mut dfile = std::fs::OpenOptions::new().read(true).write(true).create(true).truncate(true).open(dir.join("d.jbkd")).map_err(io)?;
    let ddata = fin.write(&mut dfile).map_err(jb)?;
    drop(dfile);
    let mut manifest = jbk::creator::ManifestPackCreator::new(vendor(), Default::default());
    manifest.add_pack(ddata, "d.jbkd");
    manifest.add_pack(cdata, "c.jbkc");
    let mut mfile = std::fs::OpenOptions::new().read(true).write(true).create(true).truncate(true).open(dir.join("a.jbk")).map_err(io)?;
    manifest.finalize(&mut mfile).map_err(jb)?;
    drop(mfile);
    let files: Vec<String> = vec!["a.jbk".into(), "c.jbkc".into(), "d.jbkd".into()];
    let data: Vec<Vec<u8>> = files.iter().map(|f| std::fs::read(dir.join(f)).unwrap()).collect();
    let maps = data.iter().map(|d| indep::decode_file(d).ok()).collect();
    Ok(Base {
        name: name.to_string(),
        files,
        main: "a.jbk".into(),
        index_names: index_names(&dmodel),
        addresses,
        data,
        maps,
        packaging: Packaging::NoConcat,
        comp,
        pristine: BTreeMap::new(),
        other,
        targeted: vec![],
        concurrent: 0,
    })
}

/// A container assembled with the low-level creators: manifest, directory pack and TWO content
/// packs in one file, all recorded with the empty location (BasicCreator never produces this
/// shape; `jbk concat`-like tools and custom creators do).
/// Hand-assembled containers (low-level creators), every pack carrying free data in the manifest.
/// `layout` 0: two content packs, directory and manifest in one file. 1: the two content packs
/// share ONE external file `packs.jbk` (both recorded at that location), directory and manifest
/// in `a.jbk`. 2: one file whose container pack stores the first content pack TWICE
/// (content 1, directory, content 1 again, content 2, manifest).
pub fn make_multi_pack_base(name: &str, comp: Comp, seed: u32, scratch: &Path, other: Vec<u8>, layout: u8) -> Result<Base, Failure> {
    use jubako as jbk;
    let dir = scratch.join(format!("base-{name}"));
    let _ = std::fs::remove_dir_all(&dir);
    std::fs::create_dir_all(&dir).unwrap();
    let path = jbk::Utf8PathBuf::from_path_buf(dir.join("a.jbk")).unwrap();
    let io = |e: std::io::Error| Failure::new("create-error", format!("multi-pack base: {e}"));
    let jb = |e: jbk::creator::Error| Failure::new("create-error", format!("multi-pack base: {e}"));
    let mut container = jbk::creator::ContainerPackCreator::new(&path, Default::default()).map_err(io)?;
    let mut addresses: Vec<(u16, u32)> = vec![];
    let mut pack_datas = vec![];
    for pack_id in 1u16..=2 {
        let file = container.into_file().map_err(io)?;
        let mut cp = jbk::creator::ContentPackCreator::new_from_output(file, jbk::PackId::from(pack_id), vendor(), Default::default(), comp.to_jbk()).map_err(io)?;
        for i in 0..4u32 {
            let b = content_bytes(seed ^ (pack_id as u32 * 100 + i), 30 + 170 * i as usize, if i % 2 == 0 { Entropy::Text } else { Entropy::High });
            let a = cp.add_content(Box::new(std::io::Cursor::new(b)), if i % 2 == 0 { jbk::creator::CompHint::Yes } else { jbk::creator::CompHint::No }).map_err(io)?;
            addresses.push((a.pack_id.into_u16(), a.content_id.into_u32()));
        }
        let (file, mut data) = cp.finalize().map_err(io)?;
        data.free_data = format!("free data of content pack {pack_id} / {seed:08x}").into_bytes();
        container = file.close(data.uuid).map_err(io)?;
        pack_datas.push(data);
    }
    let cp_uuids: Vec<uuid::Uuid> = pack_datas.iter().map(|d| d.uuid).collect();
    let dspec = base_spec(1, Packaging::OneFile, comp, seed).dir;
    let dmodel = build_model(&dspec, &addresses);
    let mut dp = jbk::creator::DirectoryPackCreator::new(jbk::PackId::from(0), vendor(), Default::default());
    build_dir(&dmodel).install(&mut dp);
    let fin = dp.finalize().map_err(io)?;
    let mut file = container.into_file().map_err(io)?;
    let mut dir_data = fin.write(&mut file).map_err(jb)?;
    dir_data.free_data = format!("free data of the directory pack / {seed:08x}").into_bytes();
    let dir_uuid = dir_data.uuid;
    container = file.close(dir_data.uuid).map_err(io)?;
    let mut manifest = jbk::creator::ManifestPackCreator::new(vendor(), Default::default());
    manifest.add_pack(dir_data, "");
    for d in pack_datas {
        manifest.add_pack(d, "");
    }
    let mut file = container.into_file().map_err(io)?;
    let muuid = manifest.finalize(&mut file).map_err(jb)?;
    container = file.close(muuid).map_err(io)?;
    container.finalize().map_err(io)?;
    let mut files: Vec<String> = vec!["a.jbk".into()];
    if layout != 0 {
        // re-assemble the packs of the file just written into the wanted layout
        let all = dir.join("all.jbk");
        std::fs::rename(path.as_std_path(), &all).unwrap();
        let all_bytes = std::fs::read(&all).unwrap();
        let fd = indep::decode_file(&all_bytes).map_err(|e| Failure::new("create-error", format!("multi-pack base: independent decoder: {e}")))?;
        let locs = fd.container.as_ref().map(|c| c.locators.clone()).unwrap_or_default();
        // the pack is handed to add_pack through a reader that delivers it in small pieces (a pipe,
        // a socket, a BufReader after a peek: short reads are legal for any Read)
        struct Dribble(std::io::Cursor<Vec<u8>>, usize);
        impl std::io::Read for Dribble {
            fn read(&mut self, buf: &mut [u8]) -> std::io::Result<usize> {
                self.1 = self.1 % 7 + 1;
                let n = buf.len().min(self.1 * 301);
                self.0.read(&mut buf[..n])
            }
        }
        let put = |c: &mut jbk::creator::ContainerPackCreator<_>, u: uuid::Uuid| -> Result<(), Failure> {
            let (_, size, off) = locs.iter().find(|l| l.0 == *u.as_bytes()).ok_or_else(|| Failure::new("create-error", "pack not found in the assembled file"))?;
            let mut st = Dribble(std::io::Cursor::new(all_bytes[*off as usize..(*off + *size) as usize].to_vec()), 0);
            c.add_pack(u, &mut st).map_err(io)
        };
        let mut main = jbk::creator::ContainerPackCreator::new(&path, Default::default()).map_err(io)?;
        if layout == 1 {
            let ppath = jbk::Utf8PathBuf::from_path_buf(dir.join("packs.jbk")).unwrap();
            let mut side = jbk::creator::ContainerPackCreator::new(&ppath, Default::default()).map_err(io)?;
            put(&mut side, cp_uuids[0])?;
            put(&mut side, cp_uuids[1])?;
            side.finalize().map_err(io)?;
            put(&mut main, dir_uuid)?;
            put(&mut main, muuid)?;
            main.finalize().map_err(io)?;
            for u in &cp_uuids {
                // a failure here means the container just assembled cannot be opened: go on, the
                // pristine self-check of the run reports it (a created container that does not
                // read cleanly is a violation, not a harness problem)
                if let Ok(None) = jbk::tools::set_location(path.as_std_path(), *u, "packs.jbk".into()) {
                    return Err(Failure::new("create-error", "multi-pack base: set_location does not find the pack it was given".to_string()));
                }
            }
            files.push("packs.jbk".into());
        } else {
            put(&mut main, cp_uuids[0])?;
            put(&mut main, dir_uuid)?;
            put(&mut main, cp_uuids[0])?;
            put(&mut main, cp_uuids[1])?;
            put(&mut main, muuid)?;
            main.finalize().map_err(io)?;
        }
        std::fs::remove_file(&all).unwrap();
    }
    let data: Vec<Vec<u8>> = files.iter().map(|f| std::fs::read(dir.join(f)).unwrap()).collect();
    let maps = data.iter().map(|d| indep::decode_file(d).ok()).collect();
    Ok(Base {
        name: name.to_string(),
        files,
        main: "a.jbk".into(),
        index_names: index_names(&dmodel),
        addresses,
        data,
        maps,
        packaging: Packaging::OneFile,
        comp,
        pristine: BTreeMap::new(),
        other,
        targeted: vec![],
        concurrent: 0,
    })
}

/// A base with one large compressed cluster: sampled positions of the compressed payload are swept.
pub fn make_large_cluster_base(name: &str, spec: &ContainerSpec, scratch: &Path, other: Vec<u8>) -> Result<Base, Failure> {
    let mut b = make_base(name, spec, scratch, other)?;
    let mut targeted = vec![];
    for (fi, m) in b.maps.iter().enumerate() {
        let Some(m) = m else { continue };
        for r in m.regions.iter().filter(|r| r.kind == "content/compcluster") {
            let n = (r.end - r.start).min(400);
            for k in 0..n {
                let pos = r.start + k * (r.end - r.start) / n;
                targeted.push((fi, pos, pos + 1));
            }
        }
        for r in m.regions.iter().filter(|r| r.kind == "content/clustertail" || r.kind == "content/contentinfos" || r.kind == "content/clusterptrs") {
            targeted.push((fi, r.start, r.end));
        }
    }
    b.targeted = targeted;
    Ok(b)
}

/// For a "big tables" base: read only a sample of the contents, and sweep exactly the bytes that
/// describe them (their content infos, every cluster pointer, the start and end of every cluster tail).
pub fn make_big_tables_base(name: &str, spec: &ContainerSpec, scratch: &Path, other: Vec<u8>) -> Result<Base, Failure> {
    let mut b = make_base(name, spec, scratch, other)?;
    let n = b.addresses.len();
    let sample: Vec<usize> = (0..64).map(|k| k * (n - 1) / 63).collect();
    let mut targeted = vec![];
    for (fi, m) in b.maps.iter().enumerate() {
        let Some(m) = m else { continue };
        for p in &m.packs {
            if let indep::PackBody::Content(_) = &p.body {
                let inside = |r: &indep::Region| r.start >= p.start && r.end <= p.start + p.header.size;
                if let Some(r) = m.regions.iter().find(|r| r.kind == "content/contentinfos" && inside(r)) {
                    for k in &sample {
                        let (pid, cid) = b.addresses[*k];
                        if pid == 1 {
                            targeted.push((fi, r.start + 4 * cid as u64, r.start + 4 * cid as u64 + 4));
                        }
                    }
                    targeted.push((fi, r.end - 4, r.end));
                }
                for r in m.regions.iter().filter(|r| (r.kind == "content/clusterptrs" || r.kind == "content/clustertail") && inside(r)) {
                    if r.kind == "content/clusterptrs" {
                        targeted.push((fi, r.start, r.end));
                    } else {
                        targeted.push((fi, r.start, (r.start + 48).min(r.end)));
                        targeted.push((fi, r.end.saturating_sub(8).max(r.start), r.end));
                    }
                }
            }
        }
    }
    b.addresses = sample.iter().map(|k| b.addresses[*k]).collect();
    b.targeted = targeted;
    Ok(b)
}

impl Base {
    pub fn region_at(&self, file: usize, pos: u64) -> Option<&indep::Region> {
        let m = self.maps[file].as_ref()?;
        // the most specific (smallest) region containing pos
        m.regions.iter().filter(|r| r.start <= pos && pos < r.end).min_by_key(|r| r.end - r.start)
    }
    pub fn kind_at(&self, file: usize, pos: u64) -> String {
        match self.region_at(file, pos) {
            Some(r) => r.kind.clone(),
            None => "unmapped".into(),
        }
    }
    /// (file, pack index, checked range start..end incl. check block) of every pack
    pub fn checked_ranges(&self) -> Vec<(usize, String, u64, u64, u64)> {
        let mut out = vec![];
        for (fi, m) in self.maps.iter().enumerate() {
            if let Some(m) = m {
                for (k, p) in m.packs.iter().enumerate() {
                    // a container pack may store a pack twice (same uuid): the library serves the copy
                    // stored last; the bytes of an earlier copy are reachable through no entry point
                    // and nothing is demanded of them
                    if m.packs[k + 1..].iter().any(|q| q.header.uuid == p.header.uuid) {
                        continue;
                    }
                    let uuid = uuid::Uuid::from_bytes(p.header.uuid).to_string();
                    out.push((fi, uuid, p.start, p.start + p.header.check_pos, p.start + p.header.check_pos + 37));
                }
            }
        }
        out
    }
    fn job(&self, dir: &Path, full: bool) -> Job {
        Job { dir: dir.to_string_lossy().to_string(), main: self.main.clone(), files: self.files.clone(), index_names: self.index_names.clone(), addresses: self.addresses.clone(), full, concurrent: self.concurrent, live: None }
    }
}

// ---------------------------------------------------------------------------------------
// execution

pub struct ExecResult {
    pub case: FaultCase,
    pub outcomes: Vec<(Profile, Outcome)>,
}

pub struct Runner {
    pub bases: Arc<Vec<Base>>,
    pub scratch: PathBuf,
    pub restarts: AtomicUsize,
    /// set by the sink once one violation signature has been met very often: the verdict cannot
    /// change any more and the remaining cases (each costing seconds when the reader hangs or
    /// dies) are skipped; recorded in the evidence
    pub stop: std::sync::atomic::AtomicBool,
}

fn write_base(base: &Base, dir: &Path) {
    let _ = std::fs::remove_dir_all(dir);
    std::fs::create_dir_all(dir).unwrap();
    for (f, d) in base.files.iter().zip(base.data.iter()) {
        std::fs::write(dir.join(f), d).unwrap();
    }
}

impl Runner {
    /// Run every case on every profile with `nthreads` workers, feeding results to `sink`.
    pub fn run<F: Fn(&ExecResult) + Sync>(&self, cases: &[FaultCase], profiles: &[Profile], full: bool, nthreads: usize, sink: F) {
        let next = AtomicUsize::new(0);
        std::thread::scope(|s| {
            for w in 0..nthreads {
                let next = &next;
                let sink = &sink;
                s.spawn(move || {
                    let mut children: BTreeMap<Profile, Child> = BTreeMap::new();
                    // one scratch dir per (worker, base), holding pristine copies
                    let mut dirs: BTreeMap<usize, PathBuf> = BTreeMap::new();
                    loop {
                        let i = next.fetch_add(1, Ordering::Relaxed);
                        if i >= cases.len() || self.stop.load(Ordering::Relaxed) {
                            break;
                        }
                        let case = &cases[i];
                        let base = &self.bases[case.base];
                        let dir = dirs.entry(case.base).or_insert_with(|| {
                            let d = self.scratch.join(format!("w{w}-b{}", case.base));
                            write_base(base, &d);
                            d
                        });
                        let changed = apply_edits(base, &case.edits);
                        for (fi, d) in &changed {
                            std::fs::write(dir.join(&base.files[*fi]), d).unwrap();
                        }
                        let mut job = base.job(dir, full);
                        if let Some(Edit::LiveXor { file, pos, mask }) = case.edits.iter().find(|e| matches!(e, Edit::LiveXor { .. })) {
                            job.live = Some((base.files[*file].clone(), *pos as u64, *mask));
                            job.full = true;
                        }
                        let mut outcomes = vec![];
                        for p in profiles {
                            let ch = children.entry(*p).or_insert_with(|| Child::spawn(*p, &self.scratch, w));
                            let (o, restart) = ch.run(&job, Duration::from_secs(4), Duration::from_secs(120));
                            if restart {
                                children.remove(p);
                                self.restarts.fetch_add(1, Ordering::Relaxed);
                            }
                            outcomes.push((*p, o));
                        }
                        for fi in changed.keys() {
                            std::fs::write(dir.join(&base.files[*fi]), &base.data[*fi]).unwrap();
                        }
                        sink(&ExecResult { case: case.clone(), outcomes });
                    }
                });
            }
        });
    }

    /// one case, synchronously (pristine dumps, ddmin, replay)
    pub fn run_one(&self, case: &FaultCase, profile: Profile, full: bool) -> Outcome {
        let out = Mutex::new(None);
        self.run(std::slice::from_ref(case), &[profile], full, 1, |r| {
            *out.lock().unwrap() = Some(r.outcomes[0].1.clone());
        });
        out.into_inner().unwrap().unwrap()
    }
}

// ---------------------------------------------------------------------------------------
// judges

pub fn not_success(a: Option<&Acc<bool>>) -> bool {
    !matches!(a, Some(Acc::Ok(true)))
}

/// C04: an alteration inside pack `uuid`'s checked range: its check and the container check
/// must not answer success.
pub fn judge_c04(base: &Base, file: usize, uuid: &str, d: &FDump) -> Option<Failure> {
    let key = format!("{}|{}", base.files[file], uuid);
    if !not_success(d.pack_checks.get(&key)) {
        return Some(Failure::new("pack-check-true-after-alteration", format!("check of pack {key} answers Ok(true) although a byte of its checked range was altered")));
    }
    if !not_success(d.file_checks.get(&base.files[file])) {
        return Some(Failure::new("file-check-true-after-alteration", format!("ContainerPack::check of file {} answers Ok(true) although a byte of the checked range of pack {key} in it was altered", base.files[file])));
    }
    if matches!(d.open, Some(Acc::Ok(()))) && !not_success(d.container_check.as_ref()) {
        return Some(Failure::new("container-check-true-after-alteration", format!("Container::check answers Ok(true) although a byte of the checked range of pack {key} was altered")));
    }
    None
}

/// C04, live phase: whatever one opened container serves differently after a byte of its file was
/// altered under it, its own check() must not keep answering success.
pub fn judge_c04_live(d: &FDump) -> Option<Failure> {
    if d.live_changed == Some(true) && !not_success(d.container_check.as_ref()) {
        return Some(Failure::new("live-alteration-served-while-check-true", "an opened container returns other entries/contents after a byte of its file was altered in place, and its check(), asked again on the same object, still answers Ok(true)".to_string()));
    }
    // the pack objects the container hands out, asked before and after the alteration
    if let Some((packs, dir)) = &d.live_detail {
        for id in packs {
            if let Some(Acc::Ok(true)) = d.object_checks.get(&format!("obj|{id}")) {
                return Some(Failure::new("live-alteration-served-while-pack-check-true", format!("content pack {id}, as handed out by the opened container, serves other contents after a byte of its file was altered in place, and its own check(), asked again on the same object, still answers Ok(true)")));
            }
        }
        if *dir {
            if let Some(Acc::Ok(true)) = d.object_checks.get("obj|dir") {
                return Some(Failure::new("live-alteration-served-while-pack-check-true", "the directory pack of the opened container serves other entries after a byte of its file was altered in place, and its own check(), asked again on the same object, still answers Ok(true)".to_string()));
            }
        }
    }
    None
}

/// C05: every structural answer equals the pristine one or is an error.
pub fn judge_c05(pristine: &FDump, d: &FDump) -> Option<Failure> {
    // the manifest pack opened on its own: what it says about every pack (incl. the free data
    // kept in its value store) is what was written, or the access failed
    if let (Some(Acc::Ok(a)), Some(Acc::Ok(b))) = (&d.manifest, &pristine.manifest) {
        if a.len() != b.len() {
            return Some(Failure::new("silent-manifest-pack-list", format!("the manifest lists {} packs instead of {}", a.len(), b.len())));
        }
        for (x, y) in a.iter().zip(b.iter()) {
            if (&x.uuid, x.id, &x.kind, x.size, x.group, &x.location) != (&y.uuid, y.id, &y.kind, y.size, y.group, &y.location) {
                return Some(Failure::new("silent-manifest-pack-info", format!("manifest pack info {:?} instead of {:?}", x, y)));
            }
            for (what, fa, fb) in [("get_pack_free_data", &x.free_by_id, &y.free_by_id), ("get_pack_free_data_uuid", &x.free_by_uuid, &y.free_by_uuid)] {
                if let (Acc::Ok(fa), Acc::Ok(fb)) = (fa, fb) {
                    if fa != fb {
                        return Some(Failure::new("silent-manifest-free-data", format!("{what} of pack {} ({}): {fa:?} instead of {fb:?}", y.id, y.uuid)));
                    }
                }
            }
        }
    }
    // loose pack files opened directly on a whole-file reader: same structure, or an error
    for (k, p) in &pristine.bare {
        if let (Some(Acc::Ok(a)), Acc::Ok(b)) = (d.bare.get(k), p) {
            if a != b {
                return Some(Failure::new("silent-bare-pack-structure", format!("{k} opened on a whole-file reader describes {a:?} instead of {b:?}")));
            }
        }
    }
    if !matches!(d.open, Some(Acc::Ok(()))) {
        return None; // opening failed with an error
    }
    if d.pack_count != pristine.pack_count {
        return Some(Failure::new("silent-pack-count", format!("pack count {:?} instead of {:?}", d.pack_count, pristine.pack_count)));
    }
    for (id, p) in &pristine.packs {
        if let (Some(Acc::Ok(a)), Acc::Ok(b)) = (d.packs.get(id), p) {
            if a != b {
                return Some(Failure::new("silent-content-count", format!("pack {id}: content count {a} instead of {b}")));
            }
        }
    }
    for (name, p) in &pristine.indexes {
        let (Some(Acc::Ok(a)), Acc::Ok(b)) = (d.indexes.get(name), p) else { continue };
        if (a.store, a.offset, a.count) != (b.store, b.offset, b.count) {
            return Some(Failure::new("silent-index-header", format!("index {name}: (store, offset, count) = {:?} instead of {:?}", (a.store, a.offset, a.count), (b.store, b.offset, b.count))));
        }
        for (i, (ea, eb)) in a.entries.iter().zip(b.entries.iter()).enumerate() {
            if let (Acc::Ok(x), Acc::Ok(y)) = (ea, eb) {
                if x != y {
                    return Some(Failure::new("silent-entry-value", format!("index {name} entry {i}: {x:?} instead of {y:?}")));
                }
            }
        }
    }
    let check_fails = not_success(d.container_check.as_ref());
    for (k, p) in &pristine.contents {
        let (Some(Acc::Ok(a)), Acc::Ok(b)) = (d.contents.get(k), p) else { continue };
        match (a, b) {
            (FContent::Bytes { size: sa, hash: ha, small_reads_agree }, FContent::Bytes { size: sb, hash: hb, .. }) => {
                if sa != sb {
                    return Some(Failure::new("silent-content-size", format!("content {k}: size {sa} instead of {sb}")));
                }
                if !small_reads_agree {
                    return Some(Failure::new("views-disagree", format!("content {k}: whole read and small reads return different bytes")));
                }
                if ha != hb && !check_fails {
                    return Some(Failure::new("silent-content-bytes", format!("content {k}: bytes differ and the integrity check still answers success")));
                }
            }
            (x, y) if x == y => {}
            (x, y) => return Some(Failure::new("silent-content-state", format!("content {k}: {x:?} instead of {y:?}"))),
        }
    }
    None
}

/// C06: the outcome is a value or an error value.
pub fn judge_c06(o: &Outcome, profile: Profile) -> Option<Failure> {
    match o {
        Outcome::Value(_) | Outcome::Timeout => None,
        Outcome::Blocked => Some(Failure::new("blocked", format!("[{profile:?}] every thread of the reader is asleep and consumes no cpu: blocked forever"))),
        Outcome::Spinning => Some(Failure::new("spinning", format!("[{profile:?}] one thread of the reader makes no system call but sched_yield, thousands of times (two traced windows more than 20 s apart), while every other thread sleeps without timeout: it spins on a condition nobody is left to change"))),
        Outcome::Died { class, detail } => {
            let d = detail.replace("/repo/", "");
            // signature: class + source file + start of the message without digits (DESIGN 2.7)
            let sig = match d.split_once("panicked at ") {
                Some((_, rest)) => {
                    let (loc, msg) = rest.split_once(' ').unwrap_or((rest, ""));
                    let file = loc.split(':').next().unwrap_or(loc);
                    let msg: String = normalize_sig(msg).chars().take(48).collect();
                    format!("{class}:{file}:{msg}")
                }
                None => format!("{class}:{}", normalize_sig(&d).chars().take(60).collect::<String>()),
            };
            Some(Failure::new(sig, format!("[{profile:?}] reader process died ({class}): {d}")))
        }
    }
}

pub fn differs_from_pristine(pristine: &FDump, o: &Outcome) -> bool {
    match o {
        Outcome::Value(d) => **d != *pristine,
        _ => true,
    }
}

// ---------------------------------------------------------------------------------------
// replay files

#[derive(Serialize, Deserialize, Clone, Debug)]
pub struct FaultReplay {
    pub files: Vec<(String, String)>, // name, hex
    pub main: String,
    pub index_names: Vec<String>,
    pub addresses: Vec<(u16, u32)>,
    pub other_hex: String,
    pub edits: Vec<Edit>,
    pub profile: Profile,
    pub packaging: Packaging,
    pub comp: Comp,
    /// C04: the pack whose checked range was altered
    pub target: Option<(usize, String)>,
    pub base_name: String,
}

pub fn hex(d: &[u8]) -> String {
    let mut s = String::with_capacity(d.len() * 2);
    for b in d {
        s.push_str(&format!("{b:02x}"));
    }
    s
}

pub fn unhex(s: &str) -> Vec<u8> {
    (0..s.len() / 2).map(|i| u8::from_str_radix(&s[2 * i..2 * i + 2], 16).unwrap()).collect()
}

pub fn to_replay(base: &Base, edits: &[Edit], profile: Profile, target: Option<(usize, String)>) -> FaultReplay {
    FaultReplay {
        files: base.files.iter().zip(base.data.iter()).map(|(n, d)| (n.clone(), hex(d))).collect(),
        main: base.main.clone(),
        index_names: base.index_names.clone(),
        addresses: base.addresses.clone(),
        other_hex: hex(&base.other),
        edits: edits.to_vec(),
        profile,
        packaging: base.packaging,
        comp: base.comp,
        target,
        base_name: base.name.clone(),
    }
}

pub fn base_from_replay(r: &FaultReplay) -> Base {
    let data: Vec<Vec<u8>> = r.files.iter().map(|(_, h)| unhex(h)).collect();
    let maps = data.iter().map(|d| indep::decode_file(d).ok()).collect();
    Base {
        name: r.base_name.clone(),
        files: r.files.iter().map(|(n, _)| n.clone()).collect(),
        main: r.main.clone(),
        index_names: r.index_names.clone(),
        addresses: r.addresses.clone(),
        data,
        maps,
        packaging: r.packaging,
        comp: r.comp,
        pristine: BTreeMap::new(),
        other: unhex(&r.other_hex),
        targeted: vec![],
        concurrent: if r.comp != Comp::None { 4 } else { 0 },
    }
}

/// evaluate one replay: Ok(()) = property held
pub fn eval_replay(id: &str, r: &FaultReplay) -> Result<(), Failure> {
    let scratch = tempfile::Builder::new().prefix("jbkv-fault-replay-").tempdir_in(scratch_root()).unwrap();
    let base = base_from_replay(r);
    let runner = Runner { bases: Arc::new(vec![base]), scratch: scratch.path().to_path_buf(), restarts: AtomicUsize::new(0), stop: std::sync::atomic::AtomicBool::new(false) };
    let base = &runner.bases[0];
    let pristine = match runner.run_one(&FaultCase { base: 0, edits: vec![] }, r.profile, true) {
        Outcome::Value(d) => *d,
        o => return Err(Failure::new("pristine-unreadable", format!("the unaltered container is not read cleanly: {}", o.class()))),
    };
    let o = runner.run_one(&FaultCase { base: 0, edits: r.edits.clone() }, r.profile, true);
    match id {
        "C04" => {
            if r.edits.iter().any(|e| matches!(e, Edit::LiveXor { .. })) {
                if let Outcome::Value(d) = &o {
                    if let Some(f) = judge_c04_live(d) {
                        return Err(f);
                    }
                }
                return Ok(());
            }
            if let (Outcome::Value(d), Some((file, uuid))) = (&o, &r.target) {
                if let Some(f) = judge_c04(base, *file, uuid, d) {
                    return Err(f);
                }
            }
            Ok(())
        }
        "C05" => {
            if let Outcome::Value(d) = &o {
                if let Some(f) = judge_c05(&pristine, d) {
                    return Err(f);
                }
            }
            Ok(())
        }
        _ => match judge_c06(&o, r.profile) {
            Some(f) => Err(f),
            None => Ok(()),
        },
    }
}

pub fn replay_child_cmd(id: &str, path: &Path) -> i32 {
    let txt = std::fs::read_to_string(path).expect("replay file readable");
    let saved: SavedFailure = serde_json::from_str(&txt).expect("replay file is a SavedFailure");
    let r: FaultReplay = serde_json::from_value(saved.case).expect("fault replay decodes");
    match eval_replay(id, &r) {
        Ok(()) => 0,
        Err(f) => {
            println!("FAIL {}\u{1}{}", f.sig, f.msg.replace('\n', " "));
            1
        }
    }
}

// ---------------------------------------------------------------------------------------
// the three checks

struct Tally {
    evaluations: u64,
    classes: BTreeMap<String, u64>,
    nontrivial: BTreeSet<u64>,
    nontrivial_cases: u64,
    samples: Vec<serde_json::Value>,
    failures: BTreeMap<String, (Failure, FaultCase, Profile, Option<(usize, String)>)>,
    excluded: BTreeMap<String, u64>,
    timeouts: Vec<String>,
}

fn ddmin(runner: &Runner, id: &str, case: &FaultCase, profile: Profile, target: &Option<(usize, String)>, sig: &str, pristine: &FDump) -> FaultCase {
    let mut cur = case.clone();
    if cur.edits.len() <= 1 {
        return cur;
    }
    let fails = |c: &FaultCase| -> bool {
        let o = runner.run_one(c, profile, true);
        let f = match id {
            "C04" => match (&o, target) {
                (Outcome::Value(d), Some((file, uuid))) => judge_c04(&runner.bases[c.base], *file, uuid, d),
                _ => None,
            },
            "C05" => match &o {
                Outcome::Value(d) => judge_c05(pristine, d),
                _ => None,
            },
            _ => judge_c06(&o, profile),
        };
        f.map_or(false, |f| f.sig == sig)
    };
    let mut i = 0;
    while cur.edits.len() > 1 && i < cur.edits.len() {
        let mut c = cur.clone();
        c.edits.remove(i);
        if fails(&c) {
            cur = c;
        } else {
            i += 1;
        }
    }
    cur
}

pub fn check_cmd(id: &str, tier: Tier) -> i32 {
    let t0 = Instant::now();
    let seed = env_seed();
    let mut summary = RunSummary { violations: vec![], inconclusive: vec![], merged: WorkerResult::default(), known_printed: vec![], extra: BTreeMap::new() };
    replay_regress(id, &mut summary);
    let known = known_sigs(id);
    let scratch = tempfile::Builder::new().prefix(&format!("jbkv-{id}-")).tempdir_in(scratch_root()).unwrap();
    install_panic_hook();

    // ---- bases
    let comps = [Comp::None, Comp::Zstd(5), Comp::Lz4(3), Comp::Lzma(3)];
    let mut specs: Vec<(String, ContainerSpec)> = vec![];
    let s32 = seed as u32;
    // quick: 12 small bases (C06: both profiles) / 24 (C04, C05); thorough: all 24 + generated larger ones
    for (ci, c) in comps.iter().enumerate() {
        for (pi, p) in Packaging::ALL.iter().enumerate() {
            for shape in 0..2 {
                if tier == Tier::Quick && id == "C06" && (ci + pi + shape) % 2 == 1 {
                    continue;
                }
                specs.push((format!("{}-{:?}-{}", if shape == 0 { "A" } else { "B" }, p, c.name()), base_spec(shape, *p, *c, s32)));
            }
        }
    }
    // two containers whose tables exceed 4 KiB (different code path of the file source)
    let mut big_specs: Vec<(String, ContainerSpec)> = vec![];
    big_specs.push(("T-OneFile-none".into(), base_spec(2, Packaging::OneFile, Comp::None, s32)));
    big_specs.push(("T-TwoFiles-zstd".into(), base_spec(2, Packaging::TwoFiles, Comp::Zstd(3), s32)));
    big_specs.push(("T3-OneFile-none-20000".into(), base_spec(4, Packaging::OneFile, Comp::None, s32)));
    if tier == Tier::Thorough && id == "C06" {
        // content-info table above 1 MiB: every case on it costs about half a second
        big_specs.push(("T4-OneFile-none-270000".into(), base_spec(8, Packaging::OneFile, Comp::None, s32)));
    }
    big_specs.push(("D-OneFile-none-bigdir".into(), base_spec(5, Packaging::OneFile, Comp::None, s32)));
    big_specs.push(("L-OneFile-zstd".into(), base_spec(3, Packaging::OneFile, Comp::Zstd(3), s32)));
    big_specs.push(("L-OneFile-lzma".into(), base_spec(3, Packaging::OneFile, Comp::Lzma(1), s32)));
    big_specs.push(("L-TwoFiles-lz4".into(), base_spec(3, Packaging::TwoFiles, Comp::Lz4(1), s32)));
    if tier == Tier::Thorough {
        use proptest::strategy::{Strategy, ValueTree};
        let mut runner = proptest::test_runner::TestRunner::new_with_rng(
            proptest::test_runner::Config::default(),
            proptest::test_runner::TestRng::from_seed(proptest::test_runner::RngAlgorithm::ChaCha, &{
                let mut b = [0u8; 32];
                b[..8].copy_from_slice(&splitmix(seed ^ hash_str(id)).to_le_bytes());
                b
            }),
        );
        let strat = container_strategy(1, dir_strategy(SizeClass::Medium, SortMode::Sometimes, true, true));
        let mut k = 0;
        while big_specs.len() < 8 && k < 200 {
            k += 1;
            let mut spec = strat.new_tree(&mut runner).unwrap().current();
            spec.comp = comps[k % 4];
            spec.packaging = Packaging::ALL[k % 3];
            // more content so that several clusters of both kinds exist
            for j in 0..30u32 {
                spec.contents.push(ContentSpec { len: 500 + 97 * j, ent: if j % 2 == 0 { Entropy::Text } else { Entropy::High }, seed: s32 ^ j, hint: if j % 3 == 0 { Hint::No } else { Hint::Yes }, source: Source::Mem, dup_of: None, flip: None });
            }
            big_specs.push((format!("gen{}-{:?}-{}", big_specs.len(), spec.packaging, spec.comp.name()), spec));
        }
    }
    // a different valid container, used by "replace by another container"
    let other = {
        let d = scratch.path().join("other");
        std::fs::create_dir_all(&d).unwrap();
        match build(&base_spec(1, Packaging::OneFile, Comp::None, s32 ^ 0x5555), &d, "o.jbk", None) {
            Ok(b) => std::fs::read(b.main_path).unwrap(),
            Err(f) => {
                eprintln!("INCONCLUSIVE property={id}: cannot build a base container: {} {}", f.sig, f.msg);
                return 2;
            }
        }
    };
    let mut bases = vec![];
    for (name, spec) in &specs {
        match make_base(name, spec, scratch.path(), other.clone()) {
            Ok(b) => bases.push(b),
            Err(f) => {
                eprintln!("INCONCLUSIVE property={id}: cannot build base {name}: {} {}", f.sig, f.msg);
                return 2;
            }
        }
    }
    for (k, (c, layout)) in [(Comp::None, 0u8), (Comp::Zstd(3), 0), (Comp::None, 1), (Comp::Lz4(3), 1), (Comp::None, 2), (Comp::Zstd(3), 2)].iter().enumerate() {
        let lname = ["OneFile", "SharedExternalFile", "PackStoredTwice"][*layout as usize];
        match make_multi_pack_base(&format!("M-{lname}-{}-2packs", c.name()), *c, s32 ^ k as u32, scratch.path(), other.clone(), *layout) {
            Ok(b) => bases.push(b),
            Err(f) => {
                eprintln!("INCONCLUSIVE property={id}: cannot build the multi-pack base: {} {}", f.sig, f.msg);
                return 2;
            }
        }
    }
    // loose pack files of the low-level creators, opened as a container and one by one on
    // whole-file readers (one with an EMPTY content pack: zero-length tables)
    for (k, (c, n)) in [(Comp::None, 5u32), (Comp::Zstd(3), 5), (Comp::None, 0)].iter().enumerate() {
        // C06 quick runs every case in two build profiles: it keeps the two uncompressed ones
        if tier == Tier::Quick && id == "C06" && *c != Comp::None {
            continue;
        }
        match make_bare_packs_base(&format!("P-bare-{}-{n}contents", c.name()), *c, s32 ^ (k as u32 + 11), *n, scratch.path(), other.clone()) {
            Ok(b) => bases.push(b),
            Err(f) => {
                eprintln!("INCONCLUSIVE property={id}: cannot build the bare-packs base: {} {}", f.sig, f.msg);
                return 2;
            }
        }
    }
    // tables and stores whose blocks are exact multiples of 1 KiB
    for (name, spec) in [("K-OneFile-none-255", base_spec(6, Packaging::OneFile, Comp::None, s32)), ("K-TwoFiles-lz4-511", base_spec(7, Packaging::TwoFiles, Comp::Lz4(3), s32))] {
        if tier == Tier::Quick && id == "C06" && name.ends_with("511") {
            continue;
        }
        match make_base(name, &spec, scratch.path(), other.clone()) {
            Ok(b) => bases.push(b),
            Err(f) => {
                eprintln!("INCONCLUSIVE property={id}: cannot build base {name}: {} {}", f.sig, f.msg);
                return 2;
            }
        }
    }
    let n_small = bases.len();
    // JBKV_BASES=<substring>: development aid, keeps only the big bases whose name contains it
    let only = std::env::var("JBKV_BASES").ok();
    for (name, spec) in big_specs.iter().filter(|(n, _)| only.as_ref().map_or(true, |o| n.contains(o.as_str()))) {
        let made = if name.starts_with('T') {
            make_big_tables_base(name, spec, scratch.path(), other.clone())
        } else if name.starts_with("L-") {
            make_large_cluster_base(name, spec, scratch.path(), other.clone())
        } else {
            make_base(name, spec, scratch.path(), other.clone())
        };
        match made {
            Ok(b) => bases.push(b),
            Err(f) => {
                // generated specs may hit creation refusals; skip those
                eprintln!("note: generated base {name} skipped: {} {}", f.sig, f.msg);
            }
        }
    }
    if id == "C06" {
        // several readers waiting on one damaged cluster (compressed bases only)
        for b in bases.iter_mut() {
            if b.comp != Comp::None {
                b.concurrent = 4;
            }
        }
    }
    let profiles: Vec<Profile> = if id == "C06" || tier == Tier::Thorough { vec![Profile::Release, Profile::Dbg] } else { vec![Profile::Release] };
    let mut runner = Runner { bases: Arc::new(bases), scratch: scratch.path().to_path_buf(), restarts: AtomicUsize::new(0), stop: std::sync::atomic::AtomicBool::new(false) };

    // ---- pristine dumps (self-check of the child protocol: must read cleanly and agree across profiles)
    let violations_before_pristine = summary.violations.len();
    {
        let mut pr: Vec<BTreeMap<Profile, FDump>> = vec![];
        for bi in 0..runner.bases.len() {
            let mut m = BTreeMap::new();
            for p in [Profile::Release, Profile::Dbg] {
                if !profiles.contains(&p) {
                    continue;
                }
                match runner.run_one(&FaultCase { base: bi, edits: vec![] }, p, true) {
                    Outcome::Value(d) => {
                        let ok = matches!(d.open, Some(Acc::Ok(()))) && matches!(d.container_check, Some(Acc::Ok(true))) && d.pack_checks.values().all(|c| matches!(c, Acc::Ok(true))) && d.indexes.values().all(|i| matches!(i, Acc::Ok(_))) && d.contents.values().all(|c| matches!(c, Acc::Ok(FContent::Bytes { .. })));
                        if !ok {
                            let saved = SavedFailure { property: id.into(), sig: "pristine-not-clean".into(), msg: format!("base {} does not read cleanly before any alteration: {:?}", runner.bases[bi].name, d), case: serde_json::to_value(to_replay(&runner.bases[bi], &[], p, None)).unwrap(), note: "created container fails its own checks / reads with errors".into() };
                            let path = save_replay(id, &format!("s{seed}-pristine-{bi}"), &saved);
                            println!("VIOLATION property={id} replay={}", path.display());
                            summary.violations.push((saved.sig.clone(), path));
                        }
                        m.insert(p, *d);
                    }
                    o => {
                        eprintln!("INCONCLUSIVE property={id}: pristine base {} is not read ({})", runner.bases[bi].name, o.class());
                        return 2;
                    }
                }
            }
            pr.push(m);
        }
        let mut bases = Arc::try_unwrap(std::mem::replace(&mut runner.bases, Arc::new(vec![]))).ok().expect("no other owner");
        for (b, m) in bases.iter_mut().zip(pr) {
            b.pristine = m;
        }
        runner.bases = Arc::new(bases);
    }
    if summary.violations.len() > violations_before_pristine {
        return finish_faults(id, tier, seed, t0, summary, &runner);
    }

    // ---- cases
    let mut cases: Vec<(FaultCase, Option<(usize, String)>)> = vec![];
    let masks: &[u8] = if tier == Tier::Thorough { &[0x01, 0x80, 0xFF, 0x10] } else { &[0x01, 0x80, 0xFF] };
    let mut rng = splitmix(seed ^ hash_str(id));
    let mut next = move || {
        rng = splitmix(rng);
        rng
    };
    for (bi, base) in runner.bases.iter().enumerate() {
        let small = bi < n_small;
        // targeted sweeps of big bases (the bytes describing the sampled contents)
        for (fi, s, e) in &base.targeted {
            for pos in *s..*e {
                for m in masks {
                    let target = if id == "C04" { base.checked_ranges().into_iter().find(|r| r.0 == *fi && pos >= r.2 && pos < r.4).map(|r| (r.0, r.1)) } else { None };
                    if id == "C04" && target.is_none() {
                        continue;
                    }
                    cases.push((FaultCase { base: bi, edits: vec![Edit::Xor { file: *fi, pos: pos as u32, mask: *m }] }, target));
                }
            }
        }
        match id {
            "C04" => {
                for (fi, uuid, start, check_pos, end) in base.checked_ranges() {
                    for pos in start..(if small { end } else { start }) {
                        for m in masks {
                            cases.push((FaultCase { base: bi, edits: vec![Edit::Xor { file: fi, pos: pos as u32, mask: *m }] }, Some((fi, uuid.clone()))));
                        }
                    }
                    // alterations that the block CRCs cannot see: a byte of a block + that block's CRC recomputed
                    if let Some(m) = base.maps[fi].as_ref() {
                        for (bs, bl) in &m.blocks {
                            // blocks of the checked range only: rewriting the check block into another
                            // valid check block (kind 0 = "no check") forges the checksum itself, it does
                            // not alter bytes covered by it (DESIGN 6/C04)
                            if *bs >= start && bs + bl + 4 <= check_pos {
                                let step = if small || *bl < 600 { 1 } else { (*bl / 300).max(1) };
                                let mut pos = *bs;
                                while pos < bs + bl {
                                    for mask in [0x01u8, 0x80] {
                                        cases.push((FaultCase { base: bi, edits: vec![Edit::XorFixCrc { file: fi, pos: pos as u32, mask, bstart: *bs as u32, blen: *bl as u32 }] }, Some((fi, uuid.clone()))));
                                    }
                                    pos += step;
                                }
                            }
                        }
                    }
                    // live phase: the byte is altered under an opened container, which is then asked again
                    // (positions stratified over the structures of the pack; bases of every size)
                    if let Some(m) = base.maps[fi].as_ref() {
                        let regs: Vec<&crate::indep::Region> = m.regions.iter().filter(|r| r.start >= start && r.end <= end && r.end > r.start).collect();
                        let nlive = if tier == Tier::Thorough { 120 } else { 24 };
                        for k in 0..nlive.min(4 * regs.len()) {
                            let r = regs[k % regs.len()];
                            let pos = r.start + next() % (r.end - r.start);
                            cases.push((FaultCase { base: bi, edits: vec![Edit::LiveXor { file: fi, pos: pos as u32, mask: [0x01u8, 0x80, 0xFF][k % 3] }] }, Some((fi, uuid.clone()))));
                        }
                    }
                    // multi-position and range scripts inside the range
                    let nmulti = if !small { if tier == Tier::Thorough { 1500 } else { 200 } } else if tier == Tier::Thorough { 400 } else { 60 };
                    for _ in 0..nmulti {
                        let k = 2 + (next() % 7) as usize;
                        let edits = (0..k)
                            .map(|_| {
                                let pos = start + next() % (end - start);
                                match next() % 3 {
                                    0 => Edit::Xor { file: fi, pos: pos as u32, mask: (1 + next() % 255) as u8 },
                                    1 => Edit::Zero { file: fi, start: pos as u32, len: (1 + next() % 64).min(end - pos) as u32 },
                                    _ => Edit::Overwrite { file: fi, start: pos as u32, len: (1 + next() % 64).min(end - pos) as u32, seed: next() as u32 },
                                }
                            })
                            .collect();
                        cases.push((FaultCase { base: bi, edits }, Some((fi, uuid.clone()))));
                    }
                }
            }
            "C05" => {
                for (fi, d) in base.data.iter().enumerate() {
                    for pos in 0..(if small { d.len() } else { 0 }) {
                        for m in masks {
                            cases.push((FaultCase { base: bi, edits: vec![Edit::Xor { file: fi, pos: pos as u32, mask: *m }] }, None));
                        }
                    }
                    let nrange = if !small { if tier == Tier::Thorough { 20000 } else { 3000 } } else if tier == Tier::Thorough { 6000 } else { 500 };
                    for _ in 0..nrange {
                        // stratified per structure: pick a region, then a position in it
                        let pos = match base.maps[fi].as_ref().filter(|m| !m.regions.is_empty()) {
                            Some(m) => {
                                let r = &m.regions[(next() % m.regions.len() as u64) as usize];
                                r.start + next() % (r.end - r.start)
                            }
                            None => next() % d.len().max(1) as u64,
                        };
                        let k = 1 + (next() % 4) as usize;
                        let mut edits = vec![];
                        for j in 0..k {
                            let p = if j == 0 { pos } else { next() % d.len().max(1) as u64 };
                            edits.push(match next() % 3 {
                                0 => Edit::Zero { file: fi, start: p as u32, len: (2 + next() % 511) as u32 },
                                1 => Edit::Overwrite { file: fi, start: p as u32, len: (2 + next() % 511) as u32, seed: next() as u32 },
                                _ => Edit::Xor { file: fi, pos: p as u32, mask: (1 + next() % 255) as u8 },
                            });
                        }
                        cases.push((FaultCase { base: bi, edits }, None));
                    }
                }
            }
            _ => {
                for (fi, d) in base.data.iter().enumerate() {
                    if small {
                        for len in 0..d.len() {
                            cases.push((FaultCase { base: bi, edits: vec![Edit::Truncate { file: fi, len: len as u32 }] }, None));
                        }
                    } else {
                        for _ in 0..(if tier == Tier::Thorough { 3000 } else { 400 }) {
                            cases.push((FaultCase { base: bi, edits: vec![Edit::Truncate { file: fi, len: (next() % d.len().max(1) as u64) as u32 }] }, None));
                        }
                    }
                    let c06masks: &[u8] = if tier == Tier::Thorough { &[0x01, 0x80, 0xFF] } else { &[0x01, 0xFF] };
                    for pos in 0..(if small { d.len() } else { 0 }) {
                        for m in c06masks {
                            cases.push((FaultCase { base: bi, edits: vec![Edit::Xor { file: fi, pos: pos as u32, mask: *m }] }, None));
                        }
                    }
                    for kind in 0..5u8 {
                        for len in [0u32, 1, 63, 64, 65, 200, 5000] {
                            cases.push((FaultCase { base: bi, edits: vec![Edit::Replace { file: fi, kind, len, seed: next() as u32 }] }, None));
                        }
                    }
                    for len in [1u32, 4, 63, 64, 65, 300, 4096] {
                        cases.push((FaultCase { base: bi, edits: vec![Edit::Append { file: fi, len, seed: next() as u32 }] }, None));
                    }
                    let nrange = if !small { if tier == Tier::Thorough { 15000 } else { 2500 } } else if tier == Tier::Thorough { 4000 } else { 400 };
                    for _ in 0..nrange {
                        let pos = match base.maps[fi].as_ref().filter(|m| !m.regions.is_empty()) {
                            Some(m) => {
                                let r = &m.regions[(next() % m.regions.len() as u64) as usize];
                                r.start + next() % (r.end - r.start)
                            }
                            None => next() % d.len().max(1) as u64,
                        };
                        let mut edits = vec![match next() % 2 {
                            0 => Edit::Zero { file: fi, start: pos as u32, len: (2 + next() % 511) as u32 },
                            _ => Edit::Overwrite { file: fi, start: pos as u32, len: (2 + next() % 511) as u32, seed: next() as u32 },
                        }];
                        if next() % 3 == 0 {
                            edits.push(Edit::Truncate { file: fi, len: (next() % d.len().max(1) as u64) as u32 });
                        }
                        if next() % 4 == 0 {
                            edits.push(Edit::Append { file: fi, len: (1 + next() % 300) as u32, seed: next() as u32 });
                        }
                        cases.push((FaultCase { base: bi, edits }, None));
                    }
                }
            }
        }
    }

    // ---- run
    let tally = Mutex::new(Tally { evaluations: 0, classes: BTreeMap::new(), nontrivial: BTreeSet::new(), nontrivial_cases: 0, samples: vec![], failures: BTreeMap::new(), excluded: BTreeMap::new(), timeouts: vec![] });
    let targets: Vec<Option<(usize, String)>> = cases.iter().map(|c| c.1.clone()).collect();
    let plain: Vec<FaultCase> = cases.iter().map(|c| c.0.clone()).collect();
    let index_of: std::collections::HashMap<*const FaultCase, usize> = std::collections::HashMap::new();
    let _ = index_of;
    // the sink receives cases in arbitrary order: carry the target through a lookup by content
    let target_map: std::collections::HashMap<(usize, Vec<Edit>), Option<(usize, String)>> = plain.iter().cloned().zip(targets.iter().cloned()).map(|(c, t)| ((c.base, c.edits), t)).collect();
    let full = id != "C04";
    runner.run(&plain, &profiles, full, 16, |res| {
        let base = &runner.bases[res.case.base];
        let target = target_map.get(&(res.case.base, res.case.edits.clone())).cloned().flatten();
        // everything expensive (judging, re-applying the edits, classifying) happens outside the lock
        let mut l_classes: Vec<String> = vec![];
        let mut l_evals = 0u64;
        let mut l_timeouts: Vec<String> = vec![];
        let mut l_nontrivial: Vec<(u64, serde_json::Value)> = vec![];
        let mut l_failures: Vec<(Failure, Profile)> = vec![];
        for (profile, o) in &res.outcomes {
            l_evals += 1;
            let first = &res.case.edits[0];
            let (efile, epos, ekind) = match first {
                Edit::Xor { file, pos, .. } => (*file, *pos as u64, "xor"),
                Edit::XorFixCrc { file, pos, .. } => (*file, *pos as u64, "xor+crc-fixed"),
                Edit::Zero { file, start, .. } => (*file, *start as u64, "zero"),
                Edit::Overwrite { file, start, .. } => (*file, *start as u64, "overwrite"),
                Edit::Truncate { file, len } => (*file, *len as u64, "truncate"),
                Edit::Append { file, .. } => (*file, 0, "append"),
                Edit::Replace { file, .. } => (*file, 0, "replace"),
                Edit::LiveXor { file, pos, .. } => (*file, *pos as u64, "live-xor"),
            };
            let kind = if matches!(first, Edit::Append { .. } | Edit::Replace { .. }) { "whole-file".to_string() } else { base.kind_at(efile, epos) };
            let oc = o.class();
            l_classes.push(format!("outcome:{oc}"));
            l_classes.push(format!("edit:{ekind}"));
            l_classes.push(format!("hit:{kind}"));
            l_classes.push(format!("profile:{profile:?}"));
            if res.case.edits.len() > 1 {
                l_classes.push("multi-edit".to_string());
            }
            if let Outcome::Timeout = o {
                l_timeouts.push(format!("{:?} on base {}", res.case.edits, base.name));
            }
            let pristine = &base.pristine[profile];
            let (failure, nontrivial) = match id {
                "C04" if matches!(first, Edit::LiveXor { .. }) => match o {
                    Outcome::Value(d) => {
                        l_classes.push(format!("live:{}", match (d.live_changed, &d.container_check) {
                            (Some(true), Some(Acc::Ok(true))) => "served-changed+check-true",
                            (Some(true), _) => "served-changed+check-fails",
                            (Some(false), _) => "served-unchanged",
                            (None, _) => "not-run",
                        }));
                        (judge_c04_live(d), d.live_changed == Some(true))
                    }
                    _ => (None, false),
                },
                "C04" => {
                    // positions that really changed inside the target's checked range, exempt bytes aside
                    let mut required = false;
                    if let Some((tfile, tuuid)) = &target {
                        let changed = apply_edits(base, &res.case.edits);
                        if let Some(newd) = changed.get(tfile) {
                            let old = &base.data[*tfile];
                            if let Some((_, _, start, _, end)) = base.checked_ranges().into_iter().find(|r| r.0 == *tfile && &r.1 == tuuid) {
                                for p in start..end.min(old.len() as u64) {
                                    if newd.get(p as usize) != old.get(p as usize) {
                                        let k = base.kind_at(*tfile, p);
                                        if k == "manifest/packinfo-location" || k == "manifest/packinfo-crc" {
                                            continue;
                                        }
                                        required = true;
                                        break;
                                    }
                                }
                            }
                        }
                    }
                    if !required {
                        l_classes.push("not-required:no-op-or-exempt-bytes-only".to_string());
                    }
                    // a re-checksummed header whose uuid changed IS another pack: when it lives in its own
                    // file the container rightly reports the listed pack as missing (C11) and its check
                    // covers the packs that are present
                    let identity_changed_external = match (&res.case.edits[0], &target) {
                        (Edit::XorFixCrc { file, pos, .. }, Some((tfile, tuuid))) if res.case.edits.len() == 1 && base.files[*file] != base.main => base
                            .checked_ranges()
                            .into_iter()
                            .any(|r| r.0 == *tfile && &r.1 == tuuid && (*pos as u64) >= r.2 + 10 && (*pos as u64) < r.2 + 26),
                        _ => false,
                    };
                    if identity_changed_external {
                        l_classes.push("identity-changed-external-pack".to_string());
                    }
                    let f = match (o, &target) {
                        (Outcome::Value(d), Some((file, uuid))) if required => {
                            let mut f = judge_c04(base, *file, uuid, d);
                            if identity_changed_external && f.as_ref().map_or(false, |f| f.sig == "container-check-true-after-alteration") {
                                f = None;
                            }
                            f
                        }
                        _ => None,
                    };
                    if let Outcome::Value(d) = o {
                        let chk = match &d.container_check {
                            Some(Acc::Ok(false)) => "check:false",
                            Some(Acc::Err(_)) => "check:error",
                            Some(Acc::Ok(true)) => "check:true",
                            None => "check:open-error",
                        };
                        l_classes.push(chk.to_string());
                    }
                    (f, required && matches!(o, Outcome::Value(_)))
                }
                "C05" => {
                    let f = match o {
                        Outcome::Value(d) => judge_c05(pristine, d),
                        _ => None,
                    };
                    let read_by_dump = !(kind.ends_with("/tail") || kind == "prefix" || kind == "unmapped");
                    (f, read_by_dump && matches!(o, Outcome::Value(_)))
                }
                _ => (judge_c06(o, *profile), differs_from_pristine(pristine, o)),
            };
            if nontrivial {
                let key = hash_str(&format!("{}|{kind}|{ekind}|{oc}|{profile:?}|{}", base.name, res.case.edits.len().min(3)));
                let s = serde_json::json!({"base": base.name, "edits": res.case.edits, "hit": kind, "profile": format!("{profile:?}"), "outcome": oc});
                l_nontrivial.push((key, s));
            }
            if let Some(f) = failure {
                l_failures.push((f, *profile));
            }
        }
        let mut t = tally.lock().unwrap();
        t.evaluations += l_evals;
        for c in l_classes {
            *t.classes.entry(c).or_default() += 1;
        }
        t.timeouts.extend(l_timeouts);
        for (key, s) in l_nontrivial {
            t.nontrivial_cases += 1;
            if t.nontrivial.insert(key) && t.samples.len() < 5 {
                t.samples.push(s);
            }
        }
        for (f, profile) in l_failures {
            if known.contains(&f.sig) {
                *t.excluded.entry(f.sig.clone()).or_default() += 1;
            } else {
                let n = t.classes.entry(format!("violation:{}", f.sig)).or_default();
                *n += 1;
                // a spinning reader costs half a minute per case before it is decided
                if *n >= if f.sig == "spinning" { 24 } else { 400 } {
                    runner.stop.store(true, Ordering::Relaxed);
                }
                if !t.failures.contains_key(&f.sig) {
                    t.failures.insert(f.sig.clone(), (f, res.case.clone(), profile, target.clone()));
                }
            }
        }
    });
    let t = tally.into_inner().unwrap();
    if runner.stop.swap(false, Ordering::Relaxed) {
        summary.extra.insert("enumeration_cut_short".into(), serde_json::Value::String("one violation signature was met 400 times (24 for a spinning reader): the remaining cases were skipped (the run fails anyway)".into()));
    }
    summary.merged.evaluations += t.evaluations;
    summary.merged.cases += plain.len() as u64;
    summary.merged.nontrivial_cases = t.nontrivial_cases;
    summary.merged.nontrivial_keys = t.nontrivial;
    summary.merged.classes.extend(t.classes);
    summary.merged.samples = t.samples;
    summary.merged.excluded_known = t.excluded;
    for to in t.timeouts.iter().take(3) {
        summary.inconclusive.push(format!("timeout (neither blocked nor finished): {to}"));
    }
    // shrink and save one replay per signature (at most 8)
    for (k, (sig, (f, case, profile, target))) in t.failures.into_iter().enumerate() {
        if k >= 8 {
            break;
        }
        let pristine = runner.bases[case.base].pristine[&profile].clone();
        let min = ddmin(&runner, id, &case, profile, &target, &sig, &pristine);
        let saved = SavedFailure { property: id.into(), sig: sig.clone(), msg: f.msg.clone(), case: serde_json::to_value(to_replay(&runner.bases[min.base], &min.edits, profile, target)).unwrap(), note: format!("edits minimised by ddmin from {} to {}; base {}", case.edits.len(), min.edits.len(), runner.bases[min.base].name) };
        let path = save_replay(id, &format!("s{seed}-{k}"), &saved);
        println!("VIOLATION property={id} replay={}", path.display());
        eprintln!("  sig={sig} msg={}", f.msg);
        summary.violations.push((sig, path));
    }
    finish_faults(id, tier, seed, t0, summary, &runner)
}

fn finish_faults(id: &str, tier: Tier, seed: u64, t0: Instant, mut summary: RunSummary, runner: &Runner) -> i32 {
    summary.extra.insert("children_restarted".into(), serde_json::json!(runner.restarts.load(Ordering::Relaxed)));
    summary.extra.insert("bases".into(), serde_json::json!(runner.bases.iter().map(|b| format!("{} ({} files, {} bytes)", b.name, b.files.len(), b.data.iter().map(|d| d.len()).sum::<usize>())).collect::<Vec<_>>()));
    summary.extra.insert("exhaustive".into(), serde_json::json!(false));
    let rule = match id {
        "C04" => "enumeration: for every base container (small containers of two shapes x packagings x compressions), for every pack found by the independent decoder, EVERY byte position of its checked range [start, start+checkInfoPos) and of its check block x masks {0x01,0x80,0xFF}, plus seeded scripts of 2-8 simultaneous xor/zero/overwrite edits inside the range; executed by reader children. Oracle: pristine container: every pack check, every file check and Container::check are Ok(true); altered: the check of that pack (by uuid) and Container::check answer Ok(false) or Err, never Ok(true). Non-trivial = the reader child returned a value (child deaths are C06's domain and excluded, counted under outcome:*); distinct by (base, structure kind hit, edit kind, outcome, profile).",
        "C05" => "enumeration: for every base container, EVERY byte position of every file x masks {0x01,0x80,0xFF}, plus seeded same-length scripts (zeroed / overwritten ranges of 2..512 bytes and xor, 1-4 edits, first position stratified per structure through the independent decoder's file map). Oracle: the reader child's access-by-access dump (pack count, per-pack content counts, index headers, every entry's variant and values, content sizes) equals the pristine dump or that access (or an enclosing one) returned an error; content bytes may differ only if Container::check then answers Ok(false)/Err. Non-trivial = the alteration hits a structure the dump path reads (everything but pack tails / foreign prefix) and the child returned a value; distinct by (base, structure kind hit, edit kind, outcome, profile). Bases include hand-assembled containers in three layouts (one file; two content packs sharing one external file; a pack stored twice in the container pack), every pack carrying free data in the manifest; the child also opens the manifest pack on its own and reports the pack list and every pack's free data by id and by uuid, compared like every other structural answer. Bases K: content-info table and entry-store data of exactly 1 KiB / 2 KiB with their CRC (255 and 511 contents). Bases P: loose content, directory and manifest pack files written by the low-level creators (one with an empty content pack); for every file of every base the child also calls ContentPack::new, DirectoryPack::new and ManifestPack::new on a WHOLE-FILE reader (no cut to the declared pack size first) and reports a structural digest (counts, sizes, locations) or the error, compared like the rest.",
        _ => "enumeration: for every base container (all four compressions, one-file and two-file packagings), for every file: EVERY truncation length, EVERY byte position x masks {0x01,0xFF}, whole-file replacement {empty, random, text, 'jbkC'+random, another valid container} x 7 sizes, appended garbage x 7 sizes, seeded range scripts (zero/overwrite 2..512 bytes, optionally combined with truncation and appended garbage), in BOTH build profiles (debug-assertions+overflow-checks, and release). The reader child opens, dumps everything, streams every content whole and through 7-byte reads, runs every check. Oracle: outcome is a value or error value; panic (exit 101), abort (SIGABRT), any signal, blocked forever (all threads asleep, no cpu over 1 s), spinning forever (one thread making thousands of system calls all of which are sched_yield, in two traced windows more than 20 s apart, while all others sleep without timeout) and no-progress (decode loop publishes the same length 1000 times) are violations; a wall-clock timeout is inconclusive. Non-trivial = the outcome differs from the pristine dump (the damage was observed); distinct by (base, structure kind hit, edit kind, outcome, profile). Bases P (loose pack files of the low-level creators, one with an EMPTY content pack: zero-length tables) and K (blocks that are exact multiples of 1 KiB); every file of every base is also handed as a whole-file reader to ContentPack::new, DirectoryPack::new and ManifestPack::new (what custom locators and the repository's own tests do).",
    };
    write_evidence(id, "fault_enumeration", tier, seed, rule, vec!["block transplants and re-checksummed content are outside the claim and not generated".into(), "positions are classified through the independent decoder's map of the pristine file".into()], t0, &summary);
    if !summary.violations.is_empty() {
        return 1;
    }
    if !summary.inconclusive.is_empty() {
        for i in &summary.inconclusive {
            eprintln!("INCONCLUSIVE property={id}: {i}");
        }
        return 2;
    }
    println!(
        "OK property={id} tier={} seed={seed} cases={} evaluations={} distinct_nontrivial={} children_restarted={} wall_s={:.1}",
        tier.name(),
        summary.merged.cases,
        summary.merged.evaluations,
        summary.merged.nontrivial_keys.len(),
        runner.restarts.load(Ordering::Relaxed),
        t0.elapsed().as_secs_f64()
    );
    0
}
