//! Directory side of the generated value (DESIGN 2.1/2.2): schemas, entries, index
//! windows; the builder that drives the real creator; the reference model; the reader dump.

use crate::engine::{pick, Failure};
use crate::indep::DVal;
use crate::{ensure, fail};
use jubako as jbk;
use jbk::creator::schema;
use jbk::reader::builder::BuilderTrait;
use jbk::reader::{CompareTrait, EntryTrait, Range};
use proptest::prelude::*;
use serde::{Deserialize, Serialize};
use std::cmp::Ordering;
use std::collections::{BTreeMap, HashMap};
use std::sync::Arc;

pub const CNAMES: [&str; 8] = ["c0", "c1", "c2", "c3", "c4", "c5", "c6", "c7"];
pub const VNAMES: [&str; 5] = ["A", "B", "C", "D", "E"];
pub const VPNAMES: [[&str; 5]; 5] = [
    ["a0", "a1", "a2", "a3", "a4"],
    ["b0", "b1", "b2", "b3", "b4"],
    ["d0", "d1", "d2", "d3", "d4"],
    ["e0", "e1", "e2", "e3", "e4"],
    ["f0", "f1", "f2", "f3", "f4"],
];
pub const MAX_COMMON: usize = 6;
pub const MAX_VARIANTS: usize = 4;
pub const MAX_VPROPS: usize = 4;
pub const NVALS: usize = MAX_COMMON + MAX_VPROPS;

type PN = &'static str;
type VN = &'static str;
pub type EntryType = jbk::creator::BasicEntry<PN, VN>;
pub type EStore = jbk::creator::EntryStore<PN, VN, EntryType>;

#[derive(Serialize, Deserialize, Clone, Copy, Debug, PartialEq, Eq, Hash)]
pub enum StoreKind {
    Plain,
    Indexed,
}

#[derive(Serialize, Deserialize, Clone, Copy, Debug, PartialEq, Eq, Hash)]
pub enum PKind {
    UInt,
    SInt,
    Array { fixed: u8, store: u8 },
    Content,
    /// unsigned column bound to the final position of another entry of the same store
    Ref,
    /// the same through a signed column (`Value::SignedWord`)
    SRef,
}

#[derive(Serialize, Deserialize, Clone, Copy, Debug, PartialEq, Eq, Hash)]
pub struct PropSpec {
    pub kind: PKind,
    pub constant: bool,
}

#[derive(Serialize, Deserialize, Clone, Copy, Debug, PartialEq, Eq, Hash)]
pub struct ArrSpec {
    pub base: u8,
    pub cut: u32,
    pub tweak: u8,
}

#[derive(Serialize, Deserialize, Clone, Copy, Debug, PartialEq, Eq, Hash)]
pub struct RawVal {
    pub x: u64,
    pub arr: ArrSpec,
}

#[derive(Serialize, Deserialize, Clone, Debug, PartialEq, Eq)]
pub struct RawEntry {
    pub variant: u16,
    pub vals: Vec<RawVal>,
}

#[derive(Serialize, Deserialize, Clone, Copy, Debug, PartialEq, Eq, Hash)]
pub enum Win {
    Whole,
    Empty(u16),
    Prefix(u16),
    Suffix(u16),
    Interior(u16, u16),
}

#[derive(Serialize, Deserialize, Clone, Debug, PartialEq, Eq)]
pub struct EStoreSpec {
    pub common: Vec<PropSpec>,
    pub variants: Vec<Vec<PropSpec>>,
    /// indexes into `common` (only sortable kinds are kept); empty = unsorted store
    pub sort: Vec<u8>,
    pub entries: Vec<RawEntry>,
    pub windows: Vec<Win>,
}

#[derive(Serialize, Deserialize, Clone, Debug, PartialEq, Eq)]
pub struct DirSpec {
    pub vstores: Vec<StoreKind>,
    pub estores: Vec<EStoreSpec>,
    /// content-address columns take the addresses of the container's real contents
    pub linked: bool,
    /// indexes carry application bytes and a primary-key number (derived from their name)
    /// instead of the defaults
    #[serde(default)]
    pub index_meta: bool,
}

/// (free data, index key) given to `create_index` for an index name when `index_meta` is set
pub fn index_meta_of(name: &str) -> ([u8; 4], u8) {
    let h = blake3::hash(name.as_bytes());
    let b = h.as_bytes();
    ([b[0] | 1, b[1], b[2], b[3] | 0x80], 1 + b[4] % 200)
}

impl DirSpec {
    /// minimal directory used where the container is only a vehicle for contents:
    /// one entry per content holding its address and its insertion number
    pub fn addresses_only() -> DirSpec {
        DirSpec {
            vstores: vec![],
            estores: vec![EStoreSpec {
                common: vec![
                    PropSpec { kind: PKind::Content, constant: false },
                    PropSpec { kind: PKind::UInt, constant: false },
                ],
                variants: vec![],
                sort: vec![],
                entries: vec![],
                windows: vec![Win::Whole],
            }],
            linked: true,
            index_meta: false,
        }
    }
}

// ---------------------------------------------------------------------------------------
// derived values

fn base_string(base: u8) -> Vec<u8> {
    match base % 10 {
        0 => vec![],
        1 => b"a".to_vec(),
        2 => b"ab".to_vec(),
        3 => b"abc\x00d".to_vec(),
        4 => vec![0xff, 0xff, 0xff],
        5 => vec![0x00, 0x00],
        6 => (0..40u32).map(|i| b'a' + (i % 3) as u8).collect(),
        7 => (0..300u32).map(|i| [0u8, 0xff, b'a', b'b'][(i % 4) as usize]).collect(),
        8 => (0..70_000u32).map(|i| (i % 251) as u8).collect(),
        _ => b"abcabcabcabcabcabcabcabcabcabcabcabcabc".to_vec(),
    }
}

pub fn array_value(a: ArrSpec) -> Vec<u8> {
    if a.base == 10 {
        // many distinct short values (large value stores)
        return format!("n{:07}", a.cut).into_bytes();
    }
    if a.base == 11 {
        // an array of 2^24 + cut bytes: one byte more than a length field can say (cut = 0)
        return (0..(1usize << 24) + a.cut as usize).map(|i| (i % 251) as u8).collect();
    }
    let b = base_string(a.base);
    let mut v = b[..(a.cut as usize).min(b.len())].to_vec();
    match a.tweak % 8 {
        0 | 1 | 2 => {}
        3 => v.push(0x00),
        4 => v.push(0xff),
        5 => v.push(b'a'),
        6 => {
            v.pop();
        }
        _ => {
            if let Some(l) = v.last_mut() {
                *l = l.wrapping_add(1)
            }
        }
    }
    v
}

const PACK_TABLE: [u16; 8] = [1, 1, 0, 2, 255, 256, 65535, 1];

pub fn content_value(x: u64) -> (u16, u32) {
    (PACK_TABLE[((x >> 60) & 7) as usize], x as u32)
}

// ---------------------------------------------------------------------------------------
// strategies

pub fn x_strategy() -> BoxedStrategy<u64> {
    prop_oneof![
        3 => (1u32..=8, 0u8..6).prop_map(|(w, k)| {
            let base = if w == 8 { u64::MAX } else { (1u64 << (8 * w)) - 1 };
            let half = 1u64 << (8 * w - 1);
            match k {
                0 => base,
                1 => base.wrapping_add(1),
                2 => base.wrapping_sub(1),
                3 => half,
                4 => half - 1,
                _ => half + 1,
            }
        }),
        3 => (1u32..=8, 0u8..6).prop_map(|(w, k)| {
            let hi: i64 = if w == 8 { i64::MAX } else { (1i64 << (8 * w - 1)) - 1 };
            let lo: i64 = if w == 8 { i64::MIN } else { -(1i64 << (8 * w - 1)) };
            (match k {
                0 => lo,
                1 => hi,
                2 => lo.wrapping_sub(1),
                3 => hi.wrapping_add(1),
                4 => lo.wrapping_add(1),
                _ => hi.wrapping_sub(1),
            }) as u64
        }),
        1 => Just(0u64),
        1 => Just(u64::MAX),
        3 => 0u64..300,
        2 => any::<u64>(),
        2 => (0u64..8, prop_oneof![
                Just(0u32), Just(255), Just(256), Just(65535), Just(65536), Just(0xFF_FFFF), Just(0x100_0000), Just(u32::MAX), 0u32..1000
             ]).prop_map(|(sel, cid)| (sel << 60) | cid as u64),
    ]
    .boxed()
}

pub fn arr_strategy() -> BoxedStrategy<ArrSpec> {
    (
        prop_oneof![8 => 0u8..8, 1 => Just(8u8), 2 => Just(9u8)],
        prop_oneof![
            4 => 0u32..6,
            2 => 28u32..36,
            1 => 254u32..=258,
            1 => 65533u32..=65538,
            3 => 0u32..320,
        ],
        0u8..8,
    )
        .prop_map(|(base, cut, tweak)| ArrSpec { base, cut, tweak })
        .boxed()
}

pub fn rawval_strategy() -> BoxedStrategy<RawVal> {
    (x_strategy(), arr_strategy()).prop_map(|(x, arr)| RawVal { x, arr }).boxed()
}

pub fn entry_strategy() -> BoxedStrategy<RawEntry> {
    (any::<u16>(), prop::collection::vec(rawval_strategy(), NVALS))
        .prop_map(|(variant, vals)| RawEntry { variant, vals })
        .boxed()
}

pub fn pkind_strategy(allow_ref: bool) -> BoxedStrategy<PKind> {
    let fixed = prop_oneof![Just(0u8), Just(0u8), Just(1u8), Just(2u8), Just(3u8), Just(5u8), Just(31u8), 0u8..=31];
    let arr = (fixed, 0u8..3).prop_map(|(fixed, store)| PKind::Array { fixed, store });
    if allow_ref {
        prop_oneof![3 => Just(PKind::UInt), 3 => Just(PKind::SInt), 4 => arr, 2 => Just(PKind::Content), 2 => Just(PKind::Ref), 1 => Just(PKind::SRef)].boxed()
    } else {
        prop_oneof![3 => Just(PKind::UInt), 3 => Just(PKind::SInt), 4 => arr, 2 => Just(PKind::Content)].boxed()
    }
}

pub fn prop_strategy(allow_ref: bool) -> BoxedStrategy<PropSpec> {
    (pkind_strategy(allow_ref), prop::bool::weighted(0.25))
        .prop_map(|(kind, constant)| PropSpec { kind, constant })
        .boxed()
}

pub fn win_strategy() -> BoxedStrategy<Win> {
    prop_oneof![
        2 => Just(Win::Whole),
        1 => any::<u16>().prop_map(Win::Empty),
        2 => any::<u16>().prop_map(Win::Prefix),
        2 => any::<u16>().prop_map(Win::Suffix),
        3 => (any::<u16>(), any::<u16>()).prop_map(|(a, b)| Win::Interior(a, b)),
    ]
    .boxed()
}

#[derive(Clone, Copy, Debug, PartialEq, Eq)]
pub enum SizeClass {
    Small,  // 0..40 entries
    Medium, // up to ~600
    Large,  // thousands (parallel sort / parallel index assignment)
}

pub fn entries_strategy(size: SizeClass) -> BoxedStrategy<Vec<RawEntry>> {
    match size {
        SizeClass::Small => prop_oneof![
            1 => Just(vec![]),
            1 => prop::collection::vec(entry_strategy(), 1..=1),
            2 => prop::collection::vec(entry_strategy(), 2..=3),
            8 => prop::collection::vec(entry_strategy(), 0..40),
        ]
        .boxed(),
        SizeClass::Medium => prop_oneof![
            2 => prop::collection::vec(entry_strategy(), 250..262),
            3 => prop::collection::vec(entry_strategy(), 40..600),
        ]
        .boxed(),
        SizeClass::Large => prop::collection::vec(entry_strategy(), 2000..6000).boxed(),
    }
}

#[derive(Clone, Copy, Debug, PartialEq, Eq)]
pub enum SortMode {
    Never,
    Sometimes,
    Always,
}

pub fn estore_strategy(size: SizeClass, sort: SortMode, allow_ref: bool) -> BoxedStrategy<EStoreSpec> {
    let common = prop::collection::vec(prop_strategy(allow_ref), 0..=MAX_COMMON);
    let variants = prop_oneof![
        3 => Just(vec![]),
        2 => prop::collection::vec(prop::collection::vec(prop_strategy(false), 0..=MAX_VPROPS), 1..=MAX_VARIANTS),
    ];
    let sortkeys = match sort {
        SortMode::Never => Just(vec![]).boxed(),
        SortMode::Sometimes => prop_oneof![
            1 => Just(vec![]),
            1 => prop::collection::vec(0u8..MAX_COMMON as u8, 1..=3),
        ]
        .boxed(),
        SortMode::Always => prop::collection::vec(0u8..MAX_COMMON as u8, 1..=3).boxed(),
    };
    (
        common,
        variants,
        sortkeys,
        entries_strategy(size),
        prop::collection::vec(win_strategy(), 1..=4),
    )
        .prop_map(move |(mut common, variants, sort, entries, windows)| {
            if !sort.is_empty() && !common.iter().any(|p| sortable(p.kind)) {
                // a sorted store needs at least one sortable common property
                common.insert(0, PropSpec { kind: PKind::Array { fixed: 2, store: 0 }, constant: false });
                common.truncate(MAX_COMMON);
            }
            EStoreSpec { common, variants, sort, entries, windows }
        })
        .boxed()
}


pub fn sortable(k: PKind) -> bool {
    matches!(k, PKind::UInt | PKind::SInt | PKind::Array { .. })
}

pub fn dir_strategy(size: SizeClass, sort: SortMode, allow_ref: bool, linked: bool) -> BoxedStrategy<DirSpec> {
    let vstores = prop::collection::vec(prop_oneof![Just(StoreKind::Plain), Just(StoreKind::Indexed)], 0..=3);
    let estores = prop_oneof![
        5 => prop::collection::vec(estore_strategy(size, sort, allow_ref), 1..=1),
        1 => prop::collection::vec(estore_strategy(SizeClass::Small, sort, allow_ref), 2..=2),
    ];
    (vstores, estores, any::<bool>())
        .prop_map(move |(mut vstores, estores, index_meta)| {
            // a sorted store whose only sortable property is the inserted array needs a value store
            if vstores.is_empty()
                && estores.iter().any(|e| {
                    !e.sort.is_empty()
                        && !e.common.iter().any(|p| matches!(p.kind, PKind::UInt | PKind::SInt))
                })
            {
                vstores.push(StoreKind::Plain);
            }
            DirSpec { vstores, estores, linked, index_meta }
        })
        .boxed()
}

// ---------------------------------------------------------------------------------------
// effective schema (the spec with all implicit rules applied)

#[derive(Clone, Debug)]
pub struct EffProp {
    pub name: &'static str,
    pub kind: PKind, // Array.store already reduced modulo the number of stores
    pub constant: bool,
    /// position in RawEntry::vals
    pub slot: usize,
}

#[derive(Clone, Debug)]
pub struct EffSchema {
    pub common: Vec<EffProp>,
    pub variants: Vec<Vec<EffProp>>,
    pub sort: Vec<usize>, // indexes into common
}

pub fn effective(spec: &EStoreSpec, nvstores: usize) -> EffSchema {
    let fix = |k: PKind| match k {
        PKind::Array { .. } if nvstores == 0 => PKind::UInt,
        PKind::Array { fixed, store } => PKind::Array { fixed: fixed.min(31), store: store % nvstores as u8 },
        k => k,
    };
    let common: Vec<EffProp> = spec
        .common
        .iter()
        .take(MAX_COMMON)
        .enumerate()
        .map(|(i, p)| EffProp { name: CNAMES[i], kind: fix(p.kind), constant: p.constant, slot: i })
        .collect();
    let variants: Vec<Vec<EffProp>> = spec
        .variants
        .iter()
        .take(MAX_VARIANTS)
        .enumerate()
        .map(|(v, ps)| {
            ps.iter()
                .take(MAX_VPROPS)
                .enumerate()
                .map(|(i, p)| EffProp {
                    name: VPNAMES[v][i],
                    kind: match fix(p.kind) {
                        PKind::Ref => PKind::UInt,
                        PKind::SRef => PKind::SInt,
                        k => k,
                    },
                    constant: p.constant,
                    slot: MAX_COMMON + i,
                })
                .collect()
        })
        .collect();
    let mut sort: Vec<usize> = vec![];
    for s in &spec.sort {
        if common.is_empty() {
            break;
        }
        // monotone mapping onto the sortable common properties
        let cands: Vec<usize> = (0..common.len()).filter(|i| sortable(common[*i].kind)).collect();
        if cands.is_empty() {
            break;
        }
        let c = cands[(*s as usize * cands.len()) / MAX_COMMON.max(1) % cands.len()];
        if !sort.contains(&c) {
            sort.push(c);
        }
    }
    EffSchema { common, variants, sort }
}

// ---------------------------------------------------------------------------------------
// model

#[derive(Clone, Debug)]
pub struct ModelEntry {
    pub variant: Option<u8>,
    pub vals: BTreeMap<String, DVal>,
    /// Ref columns: name -> insertion index of the target
    pub refs: BTreeMap<String, usize>,
}

#[derive(Clone, Debug)]
pub struct EStoreModel {
    pub schema: EffSchema,
    /// entries in insertion order (after de-duplication of sort keys)
    pub entries: Vec<ModelEntry>,
    /// final order: order[p] = insertion index of the entry stored at position p
    pub order: Vec<usize>,
    /// final_pos[i] = final position of insertion i
    pub final_pos: Vec<usize>,
    /// (index name, offset, count)
    pub windows: Vec<(String, usize, usize)>,
    pub dropped_dups: usize,
    pub sorted: bool,
    pub moved: usize,
}

impl EStoreModel {
    /// expected values of the entry at final position p (Ref resolved)
    pub fn expected_at(&self, p: usize) -> (Option<u8>, BTreeMap<String, DVal>) {
        let e = &self.entries[self.order[p]];
        let mut vals = e.vals.clone();
        for (n, t) in &e.refs {
            let signed = self.schema.common.iter().any(|p| p.name == n && p.kind == PKind::SRef);
            vals.insert(n.clone(), if signed { DVal::S(self.final_pos[*t] as i64) } else { DVal::U(self.final_pos[*t] as u64) });
        }
        (e.variant, vals)
    }
    pub fn sort_key_at(&self, p: usize) -> Vec<(&'static str, DVal)> {
        let e = &self.entries[self.order[p]];
        self.schema.sort.iter().map(|k| (self.schema.common[*k].name, e.vals[self.schema.common[*k].name].clone())).collect()
    }
}

#[derive(Clone, Debug)]
pub struct DirModel {
    pub stores: Vec<EStoreModel>,
    pub vstores: Vec<StoreKind>,
    pub index_meta: bool,
}

pub fn cmp_dval(a: &DVal, b: &DVal) -> Ordering {
    match (a, b) {
        (DVal::U(x), DVal::U(y)) => x.cmp(y),
        (DVal::S(x), DVal::S(y)) => x.cmp(y),
        (DVal::A(x), DVal::A(y)) => x.cmp(y), // lexicographic on the whole byte string
        _ => panic!("cmp_dval on non sortable kinds"),
    }
}

fn window(w: Win, n: usize) -> (usize, usize) {
    match w {
        Win::Whole => (0, n),
        Win::Empty(o) => (pick(o, n + 1), 0),
        Win::Prefix(c) => (0, pick(c, n + 1)),
        Win::Suffix(o) => {
            let off = pick(o, n + 1);
            (off, n - off)
        }
        Win::Interior(o, c) => {
            let off = pick(o, n + 1);
            (off, pick(c, n - off + 1))
        }
    }
}

pub fn build_model(spec: &DirSpec, addresses: &[(u16, u32)]) -> DirModel {
    let nvs = spec.vstores.len();
    let mut stores = vec![];
    for (si, es) in spec.estores.iter().enumerate() {
        let schema = effective(es, nvs);
        let mut entries: Vec<ModelEntry> = vec![];
        let mut seen_keys: std::collections::BTreeSet<Vec<DVal>> = Default::default();
        let mut dropped = 0;
        // raw values of constant columns: first raw entry (of the variant, for variant columns)
        let mut const_common: HashMap<usize, RawVal> = HashMap::new();
        let mut const_variant: HashMap<(usize, usize), RawVal> = HashMap::new();
        let mut pending_refs: Vec<BTreeMap<String, u16>> = vec![];
        for raw in &es.entries {
            let variant = if schema.variants.is_empty() { None } else { Some(pick(raw.variant, schema.variants.len())) };
            let mut vals = BTreeMap::new();
            let mut refs = BTreeMap::new();
            let props: Vec<(&EffProp, Option<usize>)> = schema
                .common
                .iter()
                .map(|p| (p, None))
                .chain(variant.iter().flat_map(|v| schema.variants[*v].iter().map(move |p| (p, Some(*v)))))
                .collect();
            for (p, v) in props {
                let is_sort = v.is_none() && schema.sort.iter().any(|k| schema.common[*k].slot == p.slot);
                let rv = raw.vals.get(p.slot).copied().unwrap_or(RawVal { x: 0, arr: ArrSpec { base: 0, cut: 0, tweak: 0 } });
                let rv = if p.constant && !is_sort {
                    match v {
                        None => *const_common.entry(p.slot).or_insert(rv),
                        Some(v) => *const_variant.entry((v, p.slot)).or_insert(rv),
                    }
                } else {
                    rv
                };
                match p.kind {
                    PKind::UInt => {
                        vals.insert(p.name.to_string(), DVal::U(rv.x));
                    }
                    PKind::SInt => {
                        vals.insert(p.name.to_string(), DVal::S(rv.x as i64));
                    }
                    PKind::Array { .. } => {
                        vals.insert(p.name.to_string(), DVal::A(array_value(rv.arr)));
                    }
                    PKind::Content => {
                        let (pk, c) = if spec.linked && !addresses.is_empty() {
                            addresses[pick(rv.x as u16, addresses.len())]
                        } else if spec.linked {
                            (1, 0)
                        } else {
                            content_value(rv.x)
                        };
                        vals.insert(p.name.to_string(), DVal::C(pk, c));
                    }
                    PKind::Ref | PKind::SRef => {
                        refs.insert(p.name.to_string(), rv.x as u16);
                    }
                }
            }
            if !schema.sort.is_empty() {
                let key: Vec<DVal> = schema.sort.iter().map(|k| vals[schema.common[*k].name].clone()).collect();
                if !seen_keys.insert(key) {
                    dropped += 1;
                    continue;
                }
            }
            entries.push(ModelEntry { variant: variant.map(|v| v as u8), vals, refs: BTreeMap::new() });
            pending_refs.push(refs);
        }
        let n = entries.len();
        for (e, r) in entries.iter_mut().zip(pending_refs) {
            for (name, sel) in r {
                // n >= 1 here
                e.refs.insert(name, pick(sel, n));
            }
        }
        // `addresses_only` convention: with no raw entries and linked, one entry per content
        if spec.linked && es.entries.is_empty() && si == 0 && *es == DirSpec::addresses_only().estores[0] {
            for (i, a) in addresses.iter().enumerate() {
                let mut vals = BTreeMap::new();
                vals.insert("c0".to_string(), DVal::C(a.0, a.1));
                vals.insert("c1".to_string(), DVal::U(i as u64));
                entries.push(ModelEntry { variant: None, vals, refs: BTreeMap::new() });
            }
        }
        let n = entries.len();
        let mut order: Vec<usize> = (0..n).collect();
        let sorted = !schema.sort.is_empty();
        if sorted {
            order.sort_by(|a, b| {
                for k in &schema.sort {
                    let name = schema.common[*k].name;
                    let o = cmp_dval(&entries[*a].vals[name], &entries[*b].vals[name]);
                    if o != Ordering::Equal {
                        return o;
                    }
                }
                Ordering::Equal
            });
        }
        let mut final_pos = vec![0usize; n];
        for (p, i) in order.iter().enumerate() {
            final_pos[*i] = p;
        }
        let moved = (0..n).filter(|i| final_pos[*i] != *i).count();
        let windows = es
            .windows
            .iter()
            .enumerate()
            .map(|(wi, w)| {
                let (o, c) = window(*w, n);
                (format!("s{si}w{wi}"), o, c)
            })
            .collect();
        stores.push(EStoreModel { schema, entries, order, final_pos, windows, dropped_dups: dropped, sorted, moved });
    }
    DirModel { stores, vstores: spec.vstores.clone(), index_meta: spec.index_meta }
}

// ---------------------------------------------------------------------------------------
// driving the real creator

pub struct DirBuild {
    pub vstores: Vec<jbk::creator::StoreHandle>,
    pub estores: Vec<Box<EStore>>,
    pub windows: Vec<Vec<(String, usize, usize)>>,
    /// handle returned by add_entry, per store per insertion
    pub bounds: Vec<Vec<jbk::Bound<jbk::EntryIdx>>>,
    pub index_meta: bool,
    /// per store, per window: Some(i) = the index is created with a *lazy* offset, the handle of
    /// insertion i (the entry the model places first in the window), as an application does
    /// that lists the children of a directory from "wherever its first child ends up"
    pub lazy_offsets: Vec<Vec<Option<usize>>>,
}

fn to_jbk_value(v: &DVal) -> jbk::Value {
    match v {
        DVal::U(x) => jbk::Value::Unsigned(*x),
        DVal::S(x) => jbk::Value::Signed(*x),
        DVal::A(x) => jbk::Value::Array(x.clone().into()),
        DVal::C(p, c) => jbk::Value::Content(jbk::ContentAddress::new((*p).into(), (*c).into())),
    }
}

pub fn build_dir(model: &DirModel) -> DirBuild {
    let vstores: Vec<jbk::creator::StoreHandle> = model
        .vstores
        .iter()
        .map(|k| match k {
            StoreKind::Plain => jbk::creator::ValueStore::new_plain(None),
            StoreKind::Indexed => jbk::creator::ValueStore::new_indexed(),
        })
        .collect();
    let mut estores = vec![];
    let mut windows = vec![];
    let mut all_bounds = vec![];
    let mut lazy_offsets: Vec<Vec<Option<usize>>> = vec![];
    for sm in &model.stores {
        let mk = |p: &EffProp| match p.kind {
            PKind::UInt | PKind::Ref => schema::Property::new_uint(p.name),
            PKind::SInt | PKind::SRef => schema::Property::new_sint(p.name),
            PKind::Array { fixed, store } => schema::Property::new_array(fixed as usize, vstores[store as usize].clone(), p.name),
            PKind::Content => schema::Property::new_content_address(p.name),
        };
        let sch = schema::Schema::new(
            schema::CommonProperties::new(sm.schema.common.iter().map(mk).collect()),
            sm.schema
                .variants
                .iter()
                .enumerate()
                .map(|(i, v)| (VNAMES[i], schema::VariantProperties::new(v.iter().map(mk).collect())))
                .collect(),
            if sm.schema.sort.is_empty() { None } else { Some(sm.schema.sort.iter().map(|k| sm.schema.common[*k].name).collect()) },
        );
        let mut es = Box::new(EStore::new(sch, None));
        let n = sm.entries.len();
        // vows first, so that forward references exist
        let vows: Vec<jbk::Vow<jbk::EntryIdx>> = (0..n).map(|_| jbk::Vow::new(jbk::EntryIdx::from(0))).collect();
        let bound_of: Vec<jbk::Bound<jbk::EntryIdx>> = vows.iter().map(|v| v.bind()).collect();
        let mut bounds = vec![];
        let names: Vec<&'static str> = sm
            .schema
            .common
            .iter()
            .chain(sm.schema.variants.iter().flatten())
            .map(|p| p.name)
            .collect();
        for (e, vow) in sm.entries.iter().zip(vows) {
            let mut hm: HashMap<&'static str, jbk::Value> = HashMap::new();
            for (n, v) in &e.vals {
                let sname = names.iter().find(|x| **x == n.as_str()).unwrap();
                hm.insert(*sname, to_jbk_value(v));
            }
            for (n, t) in &e.refs {
                let sname = names.iter().find(|x| **x == n.as_str()).unwrap();
                let signed = sm.schema.common.iter().any(|p| p.name == n && p.kind == PKind::SRef);
                if signed {
                    // a signed reference column (e.g. -1 meaning "no target" in applications)
                    let b = bound_of[*t].clone();
                    let f: Box<dyn Fn() -> i64 + Sync + Send> = Box::new(move || b.get().into_u32() as i64);
                    hm.insert(*sname, jbk::Value::SignedWord(f.into()));
                } else {
                    hm.insert(*sname, jbk::Value::UnsignedWord(bound_of[*t].clone().into()));
                }
            }
            let entry = EntryType::new_from_schema_idx(&es.schema, vow, e.variant.map(|v| VNAMES[v as usize]), hm);
            bounds.push(es.add_entry(entry));
        }
        estores.push(es);
        windows.push(sm.windows.clone());
        lazy_offsets.push(
            sm.windows
                .iter()
                .enumerate()
                .map(|(wi, (_, off, cnt))| if *off < n && (off + cnt + wi) % 2 == 1 { Some(sm.order[*off]) } else { None })
                .collect(),
        );
        all_bounds.push(bounds);
    }
    DirBuild { vstores, estores, windows, bounds: all_bounds, index_meta: model.index_meta, lazy_offsets }
}

impl DirBuild {
    /// add value stores, entry stores and indexes to a directory pack creator
    pub fn install(self, dp: &mut jbk::creator::DirectoryPackCreator) -> Vec<Vec<jbk::Bound<jbk::EntryIdx>>> {
        for vs in self.vstores {
            dp.add_value_store(vs);
        }
        for (si, (es, wins)) in self.estores.into_iter().zip(self.windows).enumerate() {
            let sid = dp.add_entry_store(es);
            for (wi, (name, off, cnt)) in wins.into_iter().enumerate() {
                let (fd, key) = if self.index_meta { index_meta_of(&name) } else { ([0; 4], 0) };
                match self.lazy_offsets[si][wi] {
                    Some(i) => dp.create_index(&name, fd.into(), key.into(), sid, (cnt as u32).into(), self.bounds[si][i].clone().into()),
                    None => dp.create_index(&name, fd.into(), key.into(), sid, (cnt as u32).into(), jbk::EntryIdx::from(off as u32).into()),
                }
            }
        }
        self.bounds
    }
}

pub struct Installer {
    pub build: DirBuild,
    pub out: Arc<std::sync::Mutex<Option<Vec<Vec<jbk::Bound<jbk::EntryIdx>>>>>>,
}

// Bounds are Send? they hold Arc; the Mutex<Option<..>> only needs to live on this thread.
impl jbk::creator::EntryStoreTrait for Installer {
    fn finalize(self: Box<Self>, dp: &mut jbk::creator::DirectoryPackCreator) {
        let b = self.build.install(dp);
        *self.out.lock().unwrap() = Some(b);
    }
}

/// after finalisation: every handle returned by add_entry reports the final position
pub fn check_bounds(model: &DirModel, bounds: &[Vec<jbk::Bound<jbk::EntryIdx>>]) -> Result<(), Failure> {
    for (si, (sm, bs)) in model.stores.iter().zip(bounds.iter()).enumerate() {
        for (i, b) in bs.iter().enumerate() {
            let got = b.get().into_u32() as usize;
            ensure!(
                got == sm.final_pos[i],
                "bound-final-position",
                "store {si}: handle of insertion #{i} reports position {got}, final position is {}",
                sm.final_pos[i]
            );
        }
    }
    Ok(())
}

/// Create a standalone directory pack file with the bare creator.
pub fn create_directory_pack(model: &DirModel, path: &std::path::Path) -> Result<Vec<Vec<jbk::Bound<jbk::EntryIdx>>>, Failure> {
    let build = build_dir(model);
    let mut dp = jbk::creator::DirectoryPackCreator::new(jbk::PackId::from(0), crate::gen::vendor(), Default::default());
    let bounds = build.install(&mut dp);
    let mut file = std::fs::OpenOptions::new().read(true).write(true).create(true).truncate(true).open(path).unwrap();
    let fin = match dp.finalize() {
        Ok(f) => f,
        Err(e) => fail!("dir-finalize-error", "DirectoryPackCreator::finalize: {e}"),
    };
    match fin.write(&mut file) {
        Ok(_) => {}
        Err(e) => fail!("dir-write-error", "directory pack write: {e}"),
    }
    Ok(bounds)
}

// ---------------------------------------------------------------------------------------
// reader dump

pub fn raw_to_dval(rv: &jbk::reader::RawValue) -> Result<DVal, String> {
    use jbk::reader::RawValue as RV;
    Ok(match rv {
        RV::U8(_) | RV::U16(_) | RV::U32(_) | RV::U64(_) => DVal::U(rv.as_unsigned()),
        RV::I8(_) | RV::I16(_) | RV::I32(_) | RV::I64(_) => DVal::S(rv.as_signed()),
        RV::Array(_) => DVal::A(rv.as_vec().map_err(|e| e.to_string())?.to_vec()),
        RV::Content(_) => {
            let c = rv.as_content();
            DVal::C(c.pack_id.into_u16(), c.content_id.into_u32())
        }
    })
}

pub type DumpEntry = (Option<u8>, BTreeMap<String, DVal>);

pub struct OpenIndex {
    pub index: jbk::reader::Index,
    pub builder: jbk::reader::builder::AnyBuilder,
    pub common_names: Vec<String>,
    pub variant_names: Vec<Vec<String>>,
}

pub fn open_index(
    dp: &Arc<jbk::reader::DirectoryPack>,
    get_store: &dyn Fn(&jbk::reader::Index) -> jbk::Result<jbk::reader::EntryStore>,
    vstorage: &Arc<jbk::reader::ValueStorage>,
    name: &str,
) -> Result<OpenIndex, String> {
    let index = dp
        .get_index_from_name(name)
        .map_err(|e| format!("get_index_from_name({name}): {e}"))?
        .ok_or_else(|| format!("index {name} not found"))?;
    let store = get_store(&index).map_err(|e| format!("get_store: {e}"))?;
    let layout = store.layout();
    let mut common_names: Vec<String> = layout.common.iter().map(|(n, _)| n.to_string()).collect();
    common_names.sort();
    let variant_names: Vec<Vec<String>> = match &layout.variant_part {
        None => vec![],
        Some(vp) => vp
            .variants
            .iter()
            .map(|v| {
                let mut n: Vec<String> = v.iter().map(|(n, _)| n.to_string()).collect();
                n.sort();
                n
            })
            .collect(),
    };
    let builder = jbk::reader::builder::AnyBuilder::new(store, vstorage.as_ref()).map_err(|e| format!("AnyBuilder::new: {e}"))?;
    Ok(OpenIndex { index, builder, common_names, variant_names })
}

impl OpenIndex {
    pub fn count(&self) -> usize {
        self.index.count().into_u32() as usize
    }
    pub fn entry(&self, i: u32) -> Result<Option<DumpEntry>, String> {
        let e = match self.index.get_entry(&self.builder, i.into()).map_err(|e| format!("get_entry({i}): {e}"))? {
            None => return Ok(None),
            Some(e) => e,
        };
        let variant = e.get_variant_id().map_err(|e| format!("variant id of {i}: {e}"))?.map(|v| v.into_u8());
        let mut vals = BTreeMap::new();
        let names = self
            .common_names
            .iter()
            .chain(variant.iter().flat_map(|v| self.variant_names.get(*v as usize).into_iter().flatten()));
        for n in names {
            let rv = e
                .get_value(n)
                .map_err(|e| format!("value {n} of entry {i}: {e}"))?
                .ok_or_else(|| format!("value {n} of entry {i} is None"))?;
            vals.insert(n.clone(), raw_to_dval(&rv).map_err(|e| format!("value {n} of entry {i}: {e}"))?);
        }
        Ok(Some((variant, vals)))
    }
    /// a property of another variant (or unknown) answers None
    pub fn foreign_value(&self, i: u32, name: &str) -> Result<bool, String> {
        let e = self.index.get_entry(&self.builder, i.into()).map_err(|e| e.to_string())?.ok_or("no entry")?;
        Ok(e.get_value(name).map_err(|e| e.to_string())?.is_none())
    }
}

/// A reader-side variant type that knows only the variants whose bit is set in MASK (typed reading
/// path of `examples/custom_read.rs`: `Layout::variant_id_builder::<T>()`): a variant the type does
/// not know reads as None, a known one as itself, whatever the other variants of the store.
#[derive(Clone, Copy, Debug, PartialEq, Eq)]
pub struct KnownVariant<const MASK: u8>(pub u8);

impl<'a, const MASK: u8> TryFrom<&'a str> for KnownVariant<MASK> {
    type Error = ();
    fn try_from(name: &'a str) -> Result<Self, ()> {
        match VNAMES.iter().position(|n| *n == name) {
            Some(i) if MASK >> i & 1 == 1 => Ok(KnownVariant(i as u8)),
            _ => Err(()),
        }
    }
}

fn typed_variant_ids<const MASK: u8>(store: &jbk::reader::EntryStore, first: usize, count: usize) -> Result<Vec<Option<u8>>, String> {
    use jbk::reader::builder::PropertyBuilderTrait;
    let Some(b) = store.layout().variant_id_builder::<KnownVariant<MASK>>() else {
        return Err("the layout has no variant id".into());
    };
    let mut out = Vec::with_capacity(count);
    for i in first..first + count {
        let r = store.get_entry_reader(jbk::EntryIdx::from(i as u32)).ok_or_else(|| format!("no entry reader for store position {i}"))?;
        out.push(b.create(&r).map_err(|e| format!("typed variant id of store position {i}: {e}"))?.map(|k| k.0));
    }
    Ok(out)
}

/// The typed reading path of one property (`layout::Property::as_builder::<T>()` with the four
/// specialised builders `IntProperty`, `SignedProperty`, `ArrayProperty`, `ContentProperty`, each
/// `create`d on `EntryStore::get_entry_reader`): what an application with a hand-written entry type
/// uses instead of `AnyBuilder`.
pub enum TypedBuilder {
    U(jbk::reader::builder::IntProperty),
    S(jbk::reader::builder::SignedProperty),
    A(jbk::reader::builder::ArrayProperty),
    C(jbk::reader::builder::ContentProperty),
}

impl TypedBuilder {
    /// keeps the builder matching the kind the model expects; the three other kinds must have answered None
    pub fn select(
        u: Option<jbk::reader::builder::IntProperty>,
        s: Option<jbk::reader::builder::SignedProperty>,
        a: Option<jbk::reader::builder::ArrayProperty>,
        c: Option<jbk::reader::builder::ContentProperty>,
        want: &DVal,
    ) -> Result<TypedBuilder, String> {
        let kinds = [u.is_some(), s.is_some(), a.is_some(), c.is_some()];
        let want_kinds = [matches!(want, DVal::U(_)), matches!(want, DVal::S(_)), matches!(want, DVal::A(_)), matches!(want, DVal::C(..))];
        if kinds != want_kinds {
            return Err(format!("typed builders accepted [int, signed, array, content] = {kinds:?}, the model says {want_kinds:?}"));
        }
        Ok(match want {
            DVal::U(_) => TypedBuilder::U(u.unwrap()),
            DVal::S(_) => TypedBuilder::S(s.unwrap()),
            DVal::A(_) => TypedBuilder::A(a.unwrap()),
            DVal::C(..) => TypedBuilder::C(c.unwrap()),
        })
    }
    pub fn read(&self, r: &jbk::reader::ByteSlice) -> Result<DVal, String> {
        use jbk::reader::builder::PropertyBuilderTrait;
        Ok(match self {
            TypedBuilder::U(b) => DVal::U(b.create(r).map_err(|e| e.to_string())?),
            TypedBuilder::S(b) => DVal::S(b.create(r).map_err(|e| e.to_string())?),
            TypedBuilder::A(b) => {
                let a = b.create(r).map_err(|e| e.to_string())?;
                let mut v = jbk::SmallBytes::new();
                a.resolve_to_vec(&mut v).map_err(|e| e.to_string())?;
                DVal::A(v.to_vec())
            }
            TypedBuilder::C(b) => {
                let c = b.create(r).map_err(|e| e.to_string())?;
                DVal::C(c.pack_id.into_u16(), c.content_id.into_u32())
            }
        })
    }
}

/// Compare one index of an opened directory pack with the model.
pub fn verify_store_against_model(
    dp: &Arc<jbk::reader::DirectoryPack>,
    sm: &EStoreModel,
    sig_prefix: &str,
) -> Result<u64, Failure> {
    let estorage = dp.create_entry_storage();
    let vstorage = dp.create_value_storage();
    let mut evals = 0;
    for (wname, off, cnt) in &sm.windows {
        let oi = match open_index(dp, &|ix| ix.get_store(&estorage), &vstorage, wname) {
            Ok(o) => o,
            Err(e) => fail!(format!("{sig_prefix}store-unreadable"), "index {wname}: {e}"),
        };
        ensure!(oi.count() == *cnt, format!("{sig_prefix}window-count"), "index {wname} exposes {} entries, declared {cnt}", oi.count());
        ensure!(oi.index.is_empty() == (*cnt == 0), format!("{sig_prefix}window-count"), "index {wname} of {cnt} entries answers is_empty() = {}", oi.index.is_empty());
        ensure!(
            oi.index.offset().into_u32() as usize == *off,
            format!("{sig_prefix}window-offset"),
            "index {wname} has offset {}, declared {off}",
            oi.index.offset().into_u32()
        );
        for i in 0..*cnt {
            let got = match oi.entry(i as u32) {
                Ok(Some(g)) => g,
                Ok(None) => fail!(format!("{sig_prefix}entry-none"), "index {wname}: entry {i} of {cnt} is None"),
                Err(e) => fail!(format!("{sig_prefix}entry-error"), "index {wname}: {e}"),
            };
            let exp = sm.expected_at(off + i);
            if got != exp {
                let sig = classify_value_mismatch(&got, &exp);
                fail!(
                    format!("{sig_prefix}{sig}"),
                    "index {wname} entry {i} (store position {}): read {:?}, written {:?}",
                    off + i,
                    got,
                    exp
                );
            }
            evals += 1;
            // a property of another variant answers None
            if let Some(v) = exp.0 {
                for (ov, props) in sm.schema.variants.iter().enumerate() {
                    if ov as u8 != v {
                        if let Some(p) = props.first() {
                            match oi.foreign_value(i as u32, p.name) {
                                Ok(true) => {}
                                Ok(false) => fail!(format!("{sig_prefix}foreign-variant-value"), "entry {i} of variant {v} answers a value for {} of variant {ov}", p.name),
                                Err(e) => fail!(format!("{sig_prefix}entry-error"), "foreign value: {e}"),
                            }
                        }
                    }
                }
            }
        }
        // typed reading of the variant with reader types that know only some of the store's variants
        if !sm.schema.variants.is_empty() && *cnt > 0 {
            let store = match oi.index.get_store(&estorage) {
                Ok(s) => s,
                Err(e) => fail!(format!("{sig_prefix}store-unreadable"), "index {wname}: {e}"),
            };
            let typed = [(0b00101u8, typed_variant_ids::<0b00101>(&store, *off, *cnt)), (0b11010, typed_variant_ids::<0b11010>(&store, *off, *cnt)), (0b10000, typed_variant_ids::<0b10000>(&store, *off, *cnt))];
            for (mask, got) in typed {
                let got = match got {
                    Ok(g) => g,
                    Err(e) => fail!(format!("{sig_prefix}entry-error"), "index {wname}: {e}"),
                };
                for (i, g) in got.iter().enumerate() {
                    let v = sm.expected_at(off + i).0.expect("store with variants");
                    let want = if mask >> v & 1 == 1 { Some(v) } else { None };
                    ensure!(
                        *g == want,
                        format!("{sig_prefix}typed-variant-mismatch"),
                        "index {wname} entry {i} was written as variant {v} ({}); a reader type knowing the variants {:?} reads it as {:?}, expected {:?}",
                        VNAMES[v as usize],
                        (0..5).filter(|k| mask >> k & 1 == 1).map(|k| VNAMES[k]).collect::<Vec<_>>(),
                        g,
                        want
                    );
                    evals += 1;
                }
            }
        }
        // typed reading of every property (specialised builders instead of AnyBuilder)
        if *cnt > 0 {
            let store = match oi.index.get_store(&estorage) {
                Ok(s) => s,
                Err(e) => fail!(format!("{sig_prefix}store-unreadable"), "index {wname}: {e}"),
            };
            let layout = store.layout();
            let mut builders: BTreeMap<(Option<u8>, String), TypedBuilder> = BTreeMap::new();
            // every entry when the window is small, a spread of <= 64 entries otherwise
            let step = (*cnt / 64).max(1);
            for i in (0..*cnt).step_by(step) {
                let exp = sm.expected_at(off + i);
                let r = match store.get_entry_reader(jbk::EntryIdx::from((off + i) as u32)) {
                    Some(r) => r,
                    None => fail!(format!("{sig_prefix}entry-none"), "index {wname}: no entry reader for store position {}", off + i),
                };
                for (name, want) in &exp.1 {
                    let is_common = oi.common_names.iter().any(|n| n == name);
                    let key = (if is_common { None } else { exp.0 }, name.clone());
                    if !builders.contains_key(&key) {
                        let prop = if is_common {
                            layout.common.iter().find(|(n, _)| n.to_string() == *name).map(|(_, p)| p)
                        } else {
                            layout.variant_part.as_ref().and_then(|vp| vp.variants.get(exp.0.unwrap() as usize)).and_then(|v| v.iter().find(|(n, _)| n.to_string() == *name).map(|(_, p)| p))
                        };
                        let Some(prop) = prop else {
                            fail!(format!("{sig_prefix}property-missing"), "index {wname}: the layout has no property {name} (variant {:?})", key.0);
                        };
                        use jbk::reader::builder::{ArrayProperty, ContentProperty, IntProperty, SignedProperty};
                        let vs = vstorage.as_ref();
                        let parts = (|| -> jbk::Result<_> {
                            Ok((prop.as_builder::<IntProperty, _>(vs)?, prop.as_builder::<SignedProperty, _>(vs)?, prop.as_builder::<ArrayProperty, _>(vs)?, prop.as_builder::<ContentProperty, _>(vs)?))
                        })();
                        let (u, sg, a, c) = match parts {
                            Ok(p) => p,
                            Err(e) => fail!(format!("{sig_prefix}entry-error"), "index {wname} property {name}: as_builder: {e}"),
                        };
                        match TypedBuilder::select(u, sg, a, c, want) {
                            Ok(b) => {
                                builders.insert(key.clone(), b);
                            }
                            Err(e) => fail!(format!("{sig_prefix}typed-builder-kind"), "index {wname} property {name}: {e}"),
                        }
                    }
                    let got = match builders[&key].read(&r) {
                        Ok(g) => g,
                        Err(e) => fail!(format!("{sig_prefix}entry-error"), "index {wname} entry {i} property {name} through its typed builder: {e}"),
                    };
                    ensure!(
                        got == *want,
                        format!("{sig_prefix}typed-value-mismatch"),
                        "index {wname} entry {i} (store position {}) property {name}: the typed builder reads {:?}, written {:?}",
                        off + i,
                        got,
                        want
                    );
                    evals += 1;
                }
            }
        }
        for past in [*cnt as u32, *cnt as u32 + 1, u32::MAX] {
            match oi.index.get_entry(&oi.builder, past.into()) {
                Ok(None) => {}
                Ok(Some(_)) => fail!(format!("{sig_prefix}window-overrun"), "index {wname}: entry {past} beyond the window of {cnt} exists"),
                Err(e) => fail!(format!("{sig_prefix}window-overrun-error"), "index {wname}: entry {past} beyond the window: {e}"),
            }
        }
    }
    Ok(evals)
}

fn classify_value_mismatch(got: &DumpEntry, exp: &DumpEntry) -> String {
    if got.0 != exp.0 {
        return "variant-mismatch".into();
    }
    for (n, e) in &exp.1 {
        match (got.1.get(n), e) {
            (None, _) => return "property-missing".into(),
            (Some(g), e) if g == e => {}
            (Some(DVal::S(_)), DVal::S(_)) => return "signed-value-mismatch".into(),
            (Some(DVal::U(_)), DVal::U(_)) => return "unsigned-value-mismatch".into(),
            (Some(DVal::A(_)), DVal::A(_)) => return "array-value-mismatch".into(),
            (Some(DVal::C(..)), DVal::C(..)) => return "address-value-mismatch".into(),
            _ => return "value-kind-mismatch".into(),
        }
    }
    "extra-property".into()
}

// ---------------------------------------------------------------------------------------
// lookup (C03)

pub struct KeyCmp<'a> {
    pub builder: &'a jbk::reader::builder::AnyBuilder,
    pub keys: Vec<(&'static str, DVal)>,
    pub ordered: bool,
}

impl CompareTrait for KeyCmp<'_> {
    fn ordered(&self) -> bool {
        self.ordered
    }
    fn compare_entry(&self, idx: jbk::EntryIdx) -> jbk::Result<Ordering> {
        let e = self.builder.create_entry(idx)?.unwrap();
        for (n, v) in &self.keys {
            let rv = e.get_value(n)?.unwrap();
            let o = match (v, &rv) {
                (DVal::U(x), _) => rv.as_unsigned().cmp(x),
                (DVal::S(x), _) => rv.as_signed().cmp(x),
                (DVal::A(x), jbk::reader::RawValue::Array(a)) => a.cmp(x)?,
                _ => panic!("harness: key kind"),
            };
            if o != Ordering::Equal {
                return Ok(o);
            }
        }
        Ok(Ordering::Equal)
    }
}

pub fn open_directory_pack(path: &std::path::Path) -> Result<Arc<jbk::reader::DirectoryPack>, String> {
    let rd: jbk::Reader = jbk::FileSource::open(path).map_err(|e| format!("open: {e}"))?.into();
    Ok(Arc::new(jbk::reader::DirectoryPack::new(rd).map_err(|e| format!("DirectoryPack::new: {e}"))?))
}

/// does the model (any store) have this many entries etc. — small helpers for classification
pub fn shape_classes(model: &DirModel, spec: &DirSpec) -> Vec<String> {
    let mut c = vec![];
    for sm in &model.stores {
        let n = sm.entries.len();
        c.push(
            match n {
                0 => "entries:0",
                1 => "entries:1",
                2..=39 => "entries:few",
                40..=999 => "entries:hundreds",
                _ => "entries:thousands",
            }
            .to_string(),
        );
        if !sm.schema.variants.is_empty() {
            c.push("variants".into());
            if sm.schema.variants.iter().any(|v| v.is_empty()) {
                c.push("empty-variant".into());
            }
            if sm.schema.variants.iter().all(|v| v.is_empty()) {
                c.push("all-variants-empty".into());
            }
        }
        let all: Vec<&EffProp> = sm.schema.common.iter().chain(sm.schema.variants.iter().flatten()).collect();
        if all.iter().any(|p| p.constant) {
            c.push("constant-column".into());
        }
        if sm.schema.variants.iter().any(|v| v.last().map_or(false, |p| p.constant && matches!(p.kind, PKind::UInt | PKind::SInt))) {
            c.push("variant-ends-with-constant-int".into());
        }
        for p in &all {
            c.push(
                match p.kind {
                    PKind::UInt => "kind:uint",
                    PKind::SInt => "kind:sint",
                    PKind::Array { fixed: 0, .. } => "kind:array-prefix0",
                    PKind::Array { .. } => "kind:array",
                    PKind::Content => "kind:content",
                    PKind::Ref => "kind:ref",
                    PKind::SRef => "kind:sref",
                }
                .to_string(),
            );
        }
        if sm.sorted {
            c.push("sorted".into());
            if sm.schema.sort.len() > 1 {
                c.push("multi-key".into());
            }
            if sm.moved > 0 {
                c.push("sort-moved-entries".into());
            }
        }
        if sm.windows.iter().any(|(_, o, cnt)| *o > 0 || *cnt < n) && n > 0 {
            c.push("sub-window".into());
        }
        if sm.entries.iter().any(|e| e.vals.values().any(|v| matches!(v, DVal::S(x) if *x < 0))) {
            c.push("negative-signed".into());
        }
        if sm.entries.iter().any(|e| e.vals.values().any(|v| matches!(v, DVal::A(a) if a.is_empty()))) {
            c.push("empty-array".into());
        }
        if sm.entries.iter().any(|e| e.vals.values().any(|v| matches!(v, DVal::A(a) if a.len() > 255))) {
            c.push("array>255".into());
        }
        if sm.entries.iter().any(|e| e.vals.values().any(|v| matches!(v, DVal::A(a) if a.len() > 65535))) {
            c.push("array>65535".into());
        }
        if sm.dropped_dups > 0 {
            c.push("dropped-duplicate-keys".into());
        }
        if sm.entries.iter().any(|e| !e.refs.is_empty()) {
            c.push("has-refs".into());
        }
    }
    // shared value store
    let mut users = vec![0usize; spec.vstores.len()];
    for sm in &model.stores {
        for p in sm.schema.common.iter().chain(sm.schema.variants.iter().flatten()) {
            if let PKind::Array { store, .. } = p.kind {
                users[store as usize] += 1;
            }
        }
    }
    if users.iter().any(|u| *u > 1) {
        c.push("shared-value-store".into());
    }
    if model.stores.len() > 1 {
        c.push("two-entry-stores".into());
    }
    for (i, k) in spec.vstores.iter().enumerate() {
        if users[i] > 0 {
            c.push(format!("vstore:{k:?}"));
        }
    }
    c.sort();
    c.dedup();
    c
}

// ---------------------------------------------------------------------------------------
// independent decoder vs. model

/// The independent decoder must recover exactly the model from the bytes of a directory pack.
pub fn verify_indep_dir(pack_bytes: &[u8], dec: &crate::indep::DirectoryPackDec, model: &DirModel) -> Result<u64, Failure> {
    let mut evals = 0;
    ensure!(
        dec.entry_stores.len() == model.stores.len(),
        "indep-dir-shape",
        "independent decoder sees {} entry stores, {} were written",
        dec.entry_stores.len(),
        model.stores.len()
    );
    ensure!(
        dec.value_stores.len() == model.vstores.len(),
        "indep-dir-shape",
        "independent decoder sees {} value stores, {} were added",
        dec.value_stores.len(),
        model.vstores.len()
    );
    for (k, (vs, kind)) in dec.value_stores.iter().zip(model.vstores.iter()).enumerate() {
        let ok = matches!(
            (vs, kind),
            (crate::indep::ValueStoreDec::Plain { .. }, StoreKind::Plain) | (crate::indep::ValueStoreDec::Indexed { .. }, StoreKind::Indexed)
        );
        ensure!(ok, "indep-dir-shape", "value store {k}: kind on disk differs from the kind created ({kind:?})");
    }
    for (si, sm) in model.stores.iter().enumerate() {
        ensure!(
            dec.entry_stores[si].entry_count as usize == sm.entries.len(),
            "indep-dir-shape",
            "store {si}: {} entries on disk, {} written",
            dec.entry_stores[si].entry_count,
            sm.entries.len()
        );
        for (wname, off, cnt) in &sm.windows {
            let Some(ix) = dec.indexes.iter().find(|i| &i.name == wname) else {
                fail!("indep-dir-shape", "index {wname} not found by the independent decoder");
            };
            ensure!(
                ix.store as usize == si && ix.offset as usize == *off && ix.count as usize == *cnt,
                "indep-index-header",
                "index {wname}: on disk (store {}, offset {}, count {}), created (store {si}, offset {off}, count {cnt})",
                ix.store,
                ix.offset,
                ix.count
            );
            let (fd, key) = if model.index_meta { index_meta_of(wname) } else { ([0; 4], 0) };
            ensure!(
                ix.free_data == fd && ix.key == key,
                "indep-index-free-data",
                "index {wname}: free data {:02x?} and key {} on disk (bytes 12..16 and 16 of the index header), given {fd:02x?} and {key}",
                ix.free_data,
                ix.key
            );
        }
        for p in 0..sm.entries.len() {
            let got = match dec.entry(pack_bytes, si, p as u32) {
                Ok(g) => g,
                Err(e) => fail!("indep-entry-decode", "store {si} entry {p}: independent decoder: {e}"),
            };
            let exp = sm.expected_at(p);
            if got != exp {
                fail!("indep-entry-value", "store {si} entry {p}: independent decoder reads {:?}, written {:?}", got, exp);
            }
            evals += 1;
        }
    }
    Ok(evals)
}

/// An indexed value store whose tail cannot be referenced by a 16-bit sized offset:
/// the one class of in-range input the format cannot represent (creation must refuse it).
pub fn unrepresentable_tail(model: &DirModel) -> bool {
    for (k, kind) in model.vstores.iter().enumerate() {
        if *kind != StoreKind::Indexed {
            continue;
        }
        let mut values: std::collections::BTreeSet<Vec<u8>> = Default::default();
        for sm in &model.stores {
            for p in sm.schema.common.iter().chain(sm.schema.variants.iter().flatten()) {
                if let PKind::Array { fixed, store } = p.kind {
                    if store as usize == k {
                        for e in &sm.entries {
                            if let Some(DVal::A(a)) = e.vals.get(p.name) {
                                let cut = (fixed as usize).min(a.len());
                                values.insert(a[cut..].to_vec());
                            }
                        }
                    }
                }
            }
        }
        let total: u64 = values.iter().map(|v| v.len() as u64).sum();
        let osz = (1..=8u64).find(|n| *n == 8 || total < (1u64 << (8 * n))).unwrap();
        if 10 + osz * (values.len() as u64).max(1) > 0xFFFF {
            return true;
        }
    }
    false
}
