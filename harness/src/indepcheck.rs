//! Whole-container verification with the independent decoder only (no jubako reader):
//! the bytes the creator wrote follow the layout and decode to exactly the model.

use crate::container::*;
use crate::dirgen::*;
use crate::engine::Failure;
use crate::indep::{self, PackBody};
use crate::{ensure, fail};
use std::collections::BTreeMap;
use std::path::Path;

pub struct IndepView {
    /// uuid -> (file name, file bytes index, pack index in that file)
    pub files: Vec<(String, Vec<u8>, indep::FileDec)>,
}

pub fn decode_dir(dir: &Path, strict_container_size: bool) -> Result<IndepView, Failure> {
    let mut names: Vec<String> = std::fs::read_dir(dir)
        .unwrap()
        .filter_map(|e| e.ok())
        .filter(|e| e.path().is_file())
        .map(|e| e.file_name().to_string_lossy().to_string())
        .filter(|n| !n.ends_with(".json"))
        .collect();
    names.sort();
    let mut files = vec![];
    for n in names {
        let data = std::fs::read(dir.join(&n)).unwrap();
        let fd = match indep::decode_file_opts(&data, strict_container_size) {
            Ok(f) => f,
            Err(e) => fail!("indep-layout", "independent decoder rejects {n}: {e}"),
        };
        files.push((n, data, fd));
    }
    Ok(IndepView { files })
}

impl IndepView {
    pub fn find_uuid(&self, uuid: &[u8; 16]) -> Option<(usize, usize)> {
        for (fi, (_, _, fd)) in self.files.iter().enumerate() {
            if let Some(pi) = fd.find_uuid(uuid) {
                return Some((fi, pi));
            }
        }
        None
    }
}

/// The independent decoder must recover exactly the model from the files of `dir`.
pub fn verify_indep_container(dir: &Path, main_name: &str, model: &ContainerModel, strict_container_size: bool) -> Result<u64, Failure> {
    verify_indep_container_opts(dir, main_name, model, strict_container_size, true)
}

/// `check_locations`: the creator's own output records an empty location exactly for the packs
/// inside the entry point file; a `concat` output legitimately keeps the original locations.
pub fn verify_indep_container_opts(dir: &Path, main_name: &str, model: &ContainerModel, strict_container_size: bool, check_locations: bool) -> Result<u64, Failure> {
    let view = decode_dir(dir, strict_container_size)?;
    let mut evals = 0u64;
    let Some(main) = view.files.iter().position(|f| f.0 == main_name) else {
        fail!("indep-layout", "entry point {main_name} not among the files written");
    };
    let (_, _, mfd) = &view.files[main];
    let Some(mi) = mfd.find_kind(b'm') else {
        fail!("indep-layout", "no manifest pack in the entry point file");
    };
    let PackBody::Manifest(man) = &mfd.packs[mi].body else { unreachable!() };
    // every listed pack exists, with the identity, size and check info the manifest records
    let mut content_packs: BTreeMap<u16, (usize, usize)> = BTreeMap::new();
    let mut dirpack = None;
    for pi in &man.pack_infos {
        let Some((fi, pk)) = view.find_uuid(&pi.uuid) else {
            fail!("indep-pack-lost", "pack {} listed in the manifest is in none of the files written", pi.pack_id);
        };
        let (fname, fdata, fd) = &view.files[fi];
        let p = &fd.packs[pk];
        ensure!(p.header.kind == pi.pack_kind, "indep-packinfo", "pack {}: manifest says kind {:?}, header says {:?}", pi.pack_id, pi.pack_kind as char, p.header.kind as char);
        ensure!(p.header.size == pi.pack_size, "indep-packinfo", "pack {}: manifest says size {}, header says {}", pi.pack_id, pi.pack_size, p.header.size);
        // copied check info equals the pack's own
        let mpack = mfd.pack_bytes(&view.files[main].1, mi);
        let copied = indep::block(mpack, pi.check_info.0, 33, "copied check info").map_err(|e| Failure::new("indep-packinfo", e))?;
        ensure!(copied[1..33] == p.check_hash, "indep-copied-check", "pack {}: check info copied in the manifest differs from the pack's own", pi.pack_id);
        // location: empty iff the pack is inside the entry point file
        let loc = String::from_utf8_lossy(&pi.location).to_string();
        if !check_locations {
        } else if fi == main {
            ensure!(loc.is_empty(), "indep-location", "pack {} is inside the entry point file but has location {loc:?}", pi.pack_id);
        } else {
            ensure!(&loc == fname, "indep-location", "pack {} lives in {fname} but its recorded location is {loc:?}", pi.pack_id);
        }
        let _ = fdata;
        match pi.pack_kind {
            b'd' => dirpack = Some((fi, pk)),
            b'c' => {
                content_packs.insert(pi.pack_id, (fi, pk));
            }
            k => fail!("indep-packinfo", "unexpected kind {k} listed"),
        }
        evals += 1;
    }
    // directory
    let Some((dfi, dpk)) = dirpack else {
        fail!("indep-layout", "no directory pack listed");
    };
    {
        let (_, data, fd) = &view.files[dfi];
        let PackBody::Directory(dd) = &fd.packs[dpk].body else {
            fail!("indep-layout", "directory pack info points to another kind");
        };
        evals += verify_indep_dir(fd.pack_bytes(data, dpk), dd, &model.dir)?;
    }
    // contents
    let mut decoded: BTreeMap<u16, Vec<Vec<u8>>> = BTreeMap::new();
    for (i, (a, b)) in model.contents.iter().enumerate() {
        let pid = a.pack_id.into_u16();
        if !decoded.contains_key(&pid) {
            let Some((fi, pk)) = content_packs.get(&pid) else {
                fail!("indep-pack-lost", "content pack {pid} not listed");
            };
            let (_, data, fd) = &view.files[*fi];
            let PackBody::Content(cp) = &fd.packs[*pk].body else {
                fail!("indep-layout", "content pack info points to another kind");
            };
            let all = indep::content_pack_contents(fd.pack_bytes(data, *pk), cp).map_err(|e| Failure::new("indep-content", e))?;
            decoded.insert(pid, all);
        }
        let all = &decoded[&pid];
        let cid = a.content_id.into_u32() as usize;
        ensure!(cid < all.len(), "indep-content", "content #{i} {a:?} beyond the {} contents of pack {pid}", all.len());
        ensure!(&all[cid] == b, "indep-content", "content #{i} {a:?}: independent decoder reads {} bytes, {} inserted", all[cid].len(), b.len());
        evals += 1;
    }
    for (pid, n) in &model.pack_counts {
        if let Some((fi, pk)) = content_packs.get(pid) {
            let PackBody::Content(cp) = &view.files[*fi].2.packs[*pk].body else { unreachable!() };
            ensure!(cp.contents.len() as u32 == *n, "indep-content-count", "pack {pid}: {} contents on disk, {n} inserted", cp.contents.len());
        }
    }
    Ok(evals)
}
