//! Generic machinery shared by every check: orchestrator (parent), proptest worker
//! (child process), replay, known findings, evidence.
//!
//! A check run is `jbkv check <ID> <tier>`:
//!   1. replay `/verif/regress/<ID>-*.json` (saved shrunk failures: the seconds-long tier),
//!   2. spawn N worker processes, each a proptest `TestRunner` seeded from VERIF_SEED,
//!   3. merge their counters, write `/verif/evidence/<ID>.json`, print VIOLATION lines.
//!
//! Workers are processes, not threads, because some failures of the code under test
//! abort the process (a panic inside the decompression pool); the parent then attributes
//! the death to the case the worker had announced in its in-flight file.

use proptest::strategy::{BoxedStrategy, Strategy};
use proptest::test_runner::{Config, RngAlgorithm, RngSeed, TestCaseError, TestError, TestRunner};
use serde::de::DeserializeOwned;
use serde::{Deserialize, Serialize};
use std::collections::{BTreeMap, BTreeSet};
use std::path::{Path, PathBuf};
use std::sync::Mutex;
use std::time::{Duration, Instant};

/// Root of the verification tree (evidence/, regress/, replays/, target/, corpus/, known_findings.txt).
/// `JBKV_VERIF_DIR` overrides it so that a scratch copy of the harness (mutation sweeps against a
/// scratch copy of the repository) never writes into /verif.
pub fn verif_dir() -> String {
    std::env::var("JBKV_VERIF_DIR").unwrap_or_else(|_| "/verif".to_string())
}

#[derive(Clone, Copy, PartialEq, Eq, Debug)]
pub enum Tier {
    Quick,
    Thorough,
}

impl Tier {
    pub fn name(&self) -> &'static str {
        match self {
            Tier::Quick => "quick",
            Tier::Thorough => "thorough",
        }
    }
    pub fn parse(s: &str) -> Option<Tier> {
        match s {
            "quick" => Some(Tier::Quick),
            "thorough" => Some(Tier::Thorough),
            _ => None,
        }
    }
}

/// What a successful case reports about itself.
#[derive(Default, Debug)]
pub struct CaseInfo {
    /// class labels this case belongs to (generator distribution, reported in evidence)
    pub classes: Vec<String>,
    /// non-trivial by the property's stated rule
    pub nontrivial: bool,
    /// canonical key used to count *distinct* non-trivial cases
    pub key: u64,
    /// number of oracle evaluations performed by this case (>= 1)
    pub evals: u64,
}

impl CaseInfo {
    pub fn new() -> Self {
        CaseInfo {
            classes: vec![],
            nontrivial: false,
            key: 0,
            evals: 1,
        }
    }
    pub fn class(&mut self, c: impl Into<String>) {
        let c = c.into();
        if !self.classes.contains(&c) {
            self.classes.push(c);
        }
    }
}

#[derive(Debug, Clone, Serialize, Deserialize)]
pub struct Failure {
    /// stable signature (see DESIGN 2.7)
    pub sig: String,
    pub msg: String,
}

impl Failure {
    pub fn new(sig: impl Into<String>, msg: impl Into<String>) -> Self {
        Failure {
            sig: sig.into(),
            msg: msg.into(),
        }
    }
}

pub type CaseResult = Result<CaseInfo, Failure>;

#[macro_export]
macro_rules! fail {
    ($sig:expr, $($arg:tt)*) => {
        return Err($crate::engine::Failure::new($sig, format!($($arg)*)))
    };
}

#[macro_export]
macro_rules! ensure {
    ($cond:expr, $sig:expr, $($arg:tt)*) => {
        if !($cond) {
            return Err($crate::engine::Failure::new($sig, format!($($arg)*)));
        }
    };
}

pub struct Ctx {
    pub dir: PathBuf,
    pub tier: Tier,
    pub seed: u64,
    pub worker: usize,
    /// strict mode (replay): known findings are not tolerated
    pub strict: bool,
}

impl Ctx {
    pub fn path(&self, name: &str) -> PathBuf {
        self.dir.join(name)
    }
    pub fn utf8(&self, name: &str) -> camino::Utf8PathBuf {
        camino::Utf8PathBuf::from_path_buf(self.dir.join(name)).unwrap()
    }
    /// fresh empty sub directory
    pub fn subdir(&self, name: &str) -> PathBuf {
        let p = self.dir.join(name);
        let _ = std::fs::remove_dir_all(&p);
        std::fs::create_dir_all(&p).unwrap();
        p
    }
}

pub trait Property {
    type Case: Serialize + DeserializeOwned + std::fmt::Debug + Clone + 'static;
    const ID: &'static str;
    const LEVEL: &'static str = "exploration";
    fn rule() -> String;
    fn assumptions() -> Vec<String> {
        vec![]
    }
    fn strategy(tier: Tier) -> BoxedStrategy<Self::Case>;
    /// total number of generated cases over all workers
    fn cases(tier: Tier) -> u32;
    fn workers(_tier: Tier) -> usize {
        16
    }
    fn run(case: &Self::Case, ctx: &Ctx) -> CaseResult;
    /// Deterministic extra cases (boundary matrices, exhaustive enumerations): the i-th
    /// worker takes every n-th of them. Default: none.
    fn fixed_cases(_tier: Tier) -> Vec<Self::Case> {
        vec![]
    }
    /// classes that must be reached by the generator (else the run is inconclusive)
    fn required_classes(_tier: Tier) -> Vec<&'static str> {
        vec![]
    }
    /// per-case watchdog in seconds (a case silent for longer makes the run inconclusive)
    fn case_timeout_s(_tier: Tier) -> u64 {
        600
    }
    /// shrink budget
    fn max_shrink_iters() -> u32 {
        400
    }
    /// a compact rendering of a case for the evidence samples
    fn sample(case: &Self::Case) -> serde_json::Value {
        let v = serde_json::to_value(case).unwrap();
        let s = v.to_string();
        if s.len() > 1500 {
            serde_json::Value::String(format!("{}… ({} bytes of JSON)", &s[..1500], s.len()))
        } else {
            v
        }
    }
}

// ---------------------------------------------------------------------------------------
// panic capture

static LAST_PANIC: Mutex<Option<String>> = Mutex::new(None);

pub fn install_panic_hook() {
    std::panic::set_hook(Box::new(|info| {
        let msg = if let Some(s) = info.payload().downcast_ref::<&str>() {
            s.to_string()
        } else if let Some(s) = info.payload().downcast_ref::<String>() {
            s.clone()
        } else {
            "<non-string panic>".to_string()
        };
        let loc = info
            .location()
            .map(|l| l.file().to_string())
            .unwrap_or_default();
        if std::env::var("JBKV_QUIET_PANICS").is_err() {
            eprintln!("[panic] {loc}: {}", msg.lines().next().unwrap_or(""));
        }
        let mut g = LAST_PANIC.lock().unwrap_or_else(|e| e.into_inner());
        // keep the first panic of a case: later ones are usually consequences
        if g.is_none() {
            *g = Some(format!("{loc}: {msg}"));
        }
    }));
}

pub fn take_panic() -> Option<String> {
    LAST_PANIC.lock().unwrap_or_else(|e| e.into_inner()).take()
}

/// hand a message taken with `take_panic` back (a property looked at a panic and lets it through)
pub fn put_panic(msg: String) {
    let mut g = LAST_PANIC.lock().unwrap_or_else(|e| e.into_inner());
    if g.is_none() {
        *g = Some(msg);
    }
}

/// digits -> '#', repo path prefix stripped, truncated: stable under unrelated edits
pub fn normalize_sig(s: &str) -> String {
    let mut out = String::new();
    let mut last_hash = false;
    for c in s.chars() {
        if c.is_ascii_digit() {
            if !last_hash {
                out.push('#');
            }
            last_hash = true;
        } else {
            last_hash = false;
            out.push(if c == '\n' { ' ' } else { c });
        }
        if out.len() >= 160 {
            break;
        }
    }
    out.replace("/repo/", "")
}

/// Run one case, turning panics (in this thread or any other thread of the process
/// while the case runs) into failures.
pub fn run_guarded<P: Property>(case: &P::Case, ctx: &Ctx) -> CaseResult {
    let _ = take_panic();
    let r = std::panic::catch_unwind(std::panic::AssertUnwindSafe(|| P::run(case, ctx)));
    let side_panic = take_panic();
    match r {
        Ok(Ok(info)) => {
            if let Some(p) = side_panic {
                // a panic happened on another thread (or was caught by the library) while
                // the oracle was satisfied: still a crash of library code.
                return Err(Failure::new(
                    format!("panic:{}", normalize_sig(&p)),
                    format!("panic on a secondary thread: {p}"),
                ));
            }
            Ok(info)
        }
        Ok(Err(f)) => Err(f),
        Err(_) => {
            let p = side_panic.unwrap_or_else(|| "<unknown panic>".into());
            Err(Failure::new(
                format!("panic:{}", normalize_sig(&p)),
                format!("panic: {p}"),
            ))
        }
    }
}

// ---------------------------------------------------------------------------------------
// known findings

#[derive(Debug, Clone)]
pub struct Finding {
    pub property: String,
    pub sig: String,
    pub witness: String,
    pub text: String,
}

pub fn load_findings() -> Vec<Finding> {
    let mut res = vec![];
    let Ok(txt) = std::fs::read_to_string(format!("{}/known_findings.txt", verif_dir())) else {
        return res;
    };
    for line in txt.lines() {
        let line = line.trim();
        let Some(rest) = line.strip_prefix("finding:") else {
            continue;
        };
        let (head, text) = rest.split_once(" -- ").unwrap_or((rest, ""));
        let mut property = String::new();
        let mut sig = String::new();
        let mut witness = String::new();
        // sig may contain spaces: it is delimited by " sig=" and " witness="
        if let Some(p) = head.find("property=") {
            property = head[p + 9..]
                .split_whitespace()
                .next()
                .unwrap_or("")
                .to_string();
        }
        if let (Some(s), Some(w)) = (head.find("sig="), head.find(" witness=")) {
            sig = head[s + 4..w].trim().to_string();
            witness = head[w + 9..].trim().to_string();
        }
        res.push(Finding {
            property,
            sig,
            witness,
            text: text.to_string(),
        });
    }
    res
}

pub fn known_sigs(id: &str) -> Vec<String> {
    load_findings()
        .into_iter()
        .filter(|f| f.property == id)
        .map(|f| f.sig)
        .collect()
}

// ---------------------------------------------------------------------------------------
// worker

#[derive(Serialize, Deserialize, Default, Debug)]
pub struct WorkerResult {
    pub evaluations: u64,
    pub cases: u64,
    pub nontrivial_keys: BTreeSet<u64>,
    pub nontrivial_cases: u64,
    pub classes: BTreeMap<String, u64>,
    pub samples: Vec<serde_json::Value>,
    pub excluded_known: BTreeMap<String, u64>,
    pub failure: Option<SavedFailure>,
    pub shrink_runs: u64,
}

#[derive(Serialize, Deserialize, Debug, Clone)]
pub struct SavedFailure {
    pub property: String,
    pub sig: String,
    pub msg: String,
    pub case: serde_json::Value,
    #[serde(default)]
    pub note: String,
}

pub fn splitmix(mut x: u64) -> u64 {
    x = x.wrapping_add(0x9E3779B97F4A7C15);
    let mut z = x;
    z = (z ^ (z >> 30)).wrapping_mul(0xBF58476D1CE4E5B9);
    z = (z ^ (z >> 27)).wrapping_mul(0x94D049BB133111EB);
    z ^ (z >> 31)
}

pub fn hash_str(s: &str) -> u64 {
    let mut h = 0xcbf29ce484222325u64;
    for b in s.bytes() {
        h = (h ^ b as u64).wrapping_mul(0x100000001b3);
    }
    h
}

pub fn hash_bytes(s: &[u8]) -> u64 {
    let mut h = 0xcbf29ce484222325u64;
    for b in s {
        h = (h ^ *b as u64).wrapping_mul(0x100000001b3);
    }
    h
}

fn seed_bytes(seed: u64, id: &str, worker: usize) -> Vec<u8> {
    let mut out = Vec::with_capacity(32);
    let mut x = splitmix(seed ^ hash_str(id)) ^ splitmix(worker as u64 + 1);
    for _ in 0..4 {
        x = splitmix(x);
        out.extend_from_slice(&x.to_le_bytes());
    }
    out
}

pub fn scratch_root() -> PathBuf {
    // JBKV_SCRATCH: a scratch copy of the harness (mutation sweep) keeps its files apart
    if let Ok(d) = std::env::var("JBKV_SCRATCH") {
        let _ = std::fs::create_dir_all(&d);
        return PathBuf::from(d);
    }
    let shm = Path::new("/dev/shm");
    if shm.is_dir() {
        shm.to_path_buf()
    } else {
        std::env::temp_dir()
    }
}

pub fn run_worker<P: Property>(tier: Tier, seed: u64, worker: usize, nworkers: usize, outdir: &Path) {
    install_panic_hook();
    let dir = tempfile::Builder::new()
        .prefix(&format!("jbkv-{}-w{}-", P::ID, worker))
        .tempdir_in(scratch_root())
        .unwrap();
    let ctx = Ctx {
        dir: dir.path().to_path_buf(),
        tier,
        seed,
        worker,
        strict: false,
    };
    let known = known_sigs(P::ID);
    let inflight = outdir.join(format!("inflight{worker}.json"));
    let mut res = WorkerResult::default();
    let mut failed = false;

    let mut account = |res: &mut WorkerResult, case: &P::Case, info: CaseInfo| {
        res.cases += 1;
        res.evaluations += info.evals.max(1);
        for c in &info.classes {
            *res.classes.entry(c.clone()).or_default() += 1;
        }
        if info.nontrivial {
            res.nontrivial_cases += 1;
            let fresh = res.nontrivial_keys.insert(info.key);
            if fresh && res.samples.len() < 3 {
                res.samples.push(P::sample(case));
            }
        }
    };

    // 1. deterministic fixed cases, striped over the workers
    let fixed = P::fixed_cases(tier);
    for (i, case) in fixed.iter().enumerate() {
        if i % nworkers != worker {
            continue;
        }
        let _ = std::fs::write(&inflight, serde_json::to_vec(case).unwrap());
        match run_guarded::<P>(case, &ctx) {
            Ok(info) => account(&mut res, case, info),
            Err(f) => {
                if known.contains(&f.sig) {
                    *res.excluded_known.entry(f.sig.clone()).or_default() += 1;
                    continue;
                }
                res.failure = Some(SavedFailure {
                    property: P::ID.into(),
                    sig: f.sig,
                    msg: f.msg,
                    case: serde_json::to_value(case).unwrap(),
                    note: format!("fixed case #{i}"),
                });
                failed = true;
                break;
            }
        }
    }

    // 2. generated cases
    let total = P::cases(tier);
    let my_cases = total / nworkers as u32 + if (worker as u32) < total % nworkers as u32 { 1 } else { 0 };
    if !failed && my_cases > 0 {
        let config = Config {
            cases: my_cases,
            failure_persistence: None,
            rng_algorithm: RngAlgorithm::ChaCha,
            rng_seed: RngSeed::Fixed(0), // replaced below by new_with_rng
            max_shrink_iters: P::max_shrink_iters(),
            max_shrink_time: 0,
            max_global_rejects: 65536,
            max_local_rejects: 65536,
            verbose: 0,
            ..Config::default()
        };
        let rng = proptest::test_runner::TestRng::from_seed(
            RngAlgorithm::ChaCha,
            &seed_bytes(seed, P::ID, worker),
        );
        let mut runner = TestRunner::new_with_rng(config, rng);
        let strategy = P::strategy(tier);
        let res_cell = std::cell::RefCell::new(&mut res);
        let failed_seen = std::cell::Cell::new(false);
        let outcome = runner.run(&strategy, |case| {
            if !failed_seen.get() {
                let _ = std::fs::write(&inflight, serde_json::to_vec(&case).unwrap());
            }
            match run_guarded::<P>(&case, &ctx) {
                Ok(info) => {
                    if !failed_seen.get() {
                        account(&mut res_cell.borrow_mut(), &case, info);
                    } else {
                        res_cell.borrow_mut().shrink_runs += 1;
                    }
                    Ok(())
                }
                Err(f) => {
                    if known.contains(&f.sig) {
                        if !failed_seen.get() {
                            *res_cell
                                .borrow_mut()
                                .excluded_known
                                .entry(f.sig.clone())
                                .or_default() += 1;
                        }
                        return Ok(());
                    }
                    failed_seen.set(true);
                    res_cell.borrow_mut().shrink_runs += 1;
                    Err(TestCaseError::fail(format!("{}\u{1}{}", f.sig, f.msg)))
                }
            }
        });
        drop(res_cell);
        match outcome {
            Ok(()) => {}
            Err(TestError::Fail(reason, case)) => {
                let r = reason.message().to_string();
                let (sig, msg) = r.split_once('\u{1}').unwrap_or(("unknown", &r));
                res.failure = Some(SavedFailure {
                    property: P::ID.into(),
                    sig: sig.to_string(),
                    msg: msg.to_string(),
                    case: serde_json::to_value(&case).unwrap(),
                    note: format!("shrunk by proptest; worker {worker} seed {seed}"),
                });
            }
            Err(TestError::Abort(reason)) => {
                res.failure = Some(SavedFailure {
                    property: P::ID.into(),
                    sig: "generator-abort".into(),
                    msg: format!("proptest aborted: {reason}"),
                    case: serde_json::Value::Null,
                    note: "not a violation: generator health".into(),
                });
            }
        }
    }
    let _ = std::fs::remove_file(&inflight);
    std::fs::write(
        outdir.join(format!("w{worker}.json")),
        serde_json::to_vec(&res).unwrap(),
    )
    .unwrap();
}

// ---------------------------------------------------------------------------------------
// replay

pub fn replay_file<P: Property>(path: &Path, strict: bool) -> Result<CaseInfo, (Failure, SavedFailure)> {
    install_panic_hook();
    let txt = std::fs::read_to_string(path).expect("replay file readable");
    let saved: SavedFailure = serde_json::from_str(&txt).expect("replay file is a SavedFailure");
    let case: P::Case = serde_json::from_value(saved.case.clone()).expect("case decodes");
    let dir = tempfile::Builder::new()
        .prefix(&format!("jbkv-{}-replay-", P::ID))
        .tempdir_in(scratch_root())
        .unwrap();
    let ctx = Ctx {
        dir: dir.path().to_path_buf(),
        tier: Tier::Quick,
        seed: 0,
        worker: 0,
        strict,
    };
    run_guarded::<P>(&case, &ctx).map_err(|f| (f, saved))
}

/// `jbkv replay-child <ID> <file>`: exit 0 pass, 1 fail (prints "FAIL <sig>\u{1}<msg>")
pub fn replay_child<P: Property>(path: &Path) -> i32 {
    match replay_file::<P>(path, true) {
        Ok(_) => 0,
        Err((f, _)) => {
            println!("FAIL {}\u{1}{}", f.sig, f.msg.replace('\n', " "));
            1
        }
    }
}

#[derive(Debug)]
pub enum ReplayOutcome {
    Pass,
    Fail(Failure),
    Died(String),
}

/// run a replay in a child process so that aborts are observed, not suffered
pub fn replay_in_child(id: &str, path: &Path) -> ReplayOutcome {
    let exe = std::env::current_exe().unwrap();
    let mut child = std::process::Command::new(exe)
        .arg("replay-child")
        .arg(id)
        .arg(path)
        .stdout(std::process::Stdio::piped())
        .stderr(std::process::Stdio::piped())
        .spawn()
        .expect("spawn replay child");
    // a replayed deadlock must not hang the check: same sound criterion as for workers
    let t0 = Instant::now();
    let mut last_probe = Instant::now();
    loop {
        match child.try_wait() {
            Ok(Some(_)) => break,
            Ok(None) => {}
            Err(_) => break,
        }
        if t0.elapsed() > Duration::from_secs(10) && last_probe.elapsed() > Duration::from_secs(5) {
            last_probe = Instant::now();
            if process_blocked_forever(child.id()) {
                let _ = child.kill();
                let _ = child.wait();
                return ReplayOutcome::Fail(Failure::new("blocked-forever", "the replayed case deadlocks: every thread waits on a futex without timeout, no cpu consumed"));
            }
        }
        if t0.elapsed() > Duration::from_secs(1800) {
            let _ = child.kill();
            let _ = child.wait();
            return ReplayOutcome::Died("timeout after 1800 s (inconclusive)".into());
        }
        std::thread::sleep(Duration::from_millis(20));
    }
    let out = child.wait_with_output().expect("replay child output");
    let stdout = String::from_utf8_lossy(&out.stdout).to_string();
    match out.status.code() {
        Some(0) => ReplayOutcome::Pass,
        Some(1) => {
            let line = stdout
                .lines()
                .find_map(|l| l.strip_prefix("FAIL "))
                .unwrap_or("unknown\u{1}no FAIL line");
            let (sig, msg) = line.split_once('\u{1}').unwrap_or((line, ""));
            ReplayOutcome::Fail(Failure::new(sig, msg))
        }
        other => {
            let stderr = String::from_utf8_lossy(&out.stderr);
            let last = stderr.lines().rev().find(|l| !l.trim().is_empty()).unwrap_or("");
            ReplayOutcome::Died(format!("status {:?} ({}) {}", other, out.status, last))
        }
    }
}

// ---------------------------------------------------------------------------------------
// shrinking of cases that kill or deadlock the process (proptest cannot shrink those: the
// process running it is gone). Structural ddmin over the JSON of the case: remove chunks of
// any array, pull numbers towards 0; a candidate is kept when its replay (in a child) dies /
// blocks with the same signature. Candidates that no longer decode are simply not failing.

fn json_arrays(v: &serde_json::Value, path: &mut Vec<String>, out: &mut Vec<(Vec<String>, usize)>) {
    match v {
        serde_json::Value::Array(a) => {
            out.push((path.clone(), a.len()));
            for (i, x) in a.iter().enumerate() {
                path.push(i.to_string());
                json_arrays(x, path, out);
                path.pop();
            }
        }
        serde_json::Value::Object(o) => {
            for (k, x) in o {
                path.push(k.clone());
                json_arrays(x, path, out);
                path.pop();
            }
        }
        _ => {}
    }
}

fn json_at<'a>(v: &'a mut serde_json::Value, path: &[String]) -> Option<&'a mut serde_json::Value> {
    let mut cur = v;
    for p in path {
        cur = match cur {
            serde_json::Value::Array(a) => a.get_mut(p.parse::<usize>().ok()?)?,
            serde_json::Value::Object(o) => o.get_mut(p)?,
            _ => return None,
        };
    }
    Some(cur)
}

pub fn shrink_dead_case(id: &str, saved: &SavedFailure, max_evals: usize, max_time: Duration) -> (SavedFailure, usize) {
    let t0 = Instant::now();
    let mut best = saved.clone();
    let mut evals = 0usize;
    let dir = tempfile::Builder::new().prefix("jbkv-shrink-").tempdir_in(scratch_root()).unwrap();
    let mut still_fails = |cand: &serde_json::Value, evals: &mut usize| -> bool {
        *evals += 1;
        let mut s = saved.clone();
        s.case = cand.clone();
        let p = dir.path().join("cand.json");
        std::fs::write(&p, serde_json::to_vec(&s).unwrap()).unwrap();
        match replay_in_child(id, &p) {
            ReplayOutcome::Pass => false,
            ReplayOutcome::Fail(f) => f.sig == saved.sig,
            ReplayOutcome::Died(d) => {
                // same way of dying: the signal name in parentheses, e.g. "(SIGABRT)"
                let tok = |s: &str| s.find("(SIG").map(|i| s[i..].split(')').next().unwrap_or("").to_string());
                saved.sig.starts_with("died:") && tok(&saved.sig).is_some() && tok(&saved.sig) == tok(&d)
            }
        }
    };
    let mut progress = true;
    while progress && evals < max_evals && t0.elapsed() < max_time {
        progress = false;
        let mut arrays = vec![];
        json_arrays(&best.case, &mut vec![], &mut arrays);
        arrays.sort_by(|a, b| b.1.cmp(&a.1));
        'arrays: for (path, len) in arrays {
            if len == 0 {
                continue;
            }
            let mut chunk = len.div_ceil(2);
            loop {
                let mut start = 0;
                while start < len {
                    if evals >= max_evals || t0.elapsed() >= max_time {
                        break 'arrays;
                    }
                    let mut cand = best.case.clone();
                    let Some(serde_json::Value::Array(a)) = json_at(&mut cand, &path) else { continue 'arrays };
                    if start >= a.len() {
                        break;
                    }
                    let end = (start + chunk).min(a.len());
                    a.drain(start..end);
                    if still_fails(&cand, &mut evals) {
                        best.case = cand;
                        progress = true;
                        continue 'arrays; // indexes moved: re-enumerate
                    }
                    start += chunk;
                }
                if chunk == 1 {
                    break;
                }
                chunk = chunk.div_ceil(2);
            }
        }
    }
    best.note = format!("{}; shrunk structurally by re-running candidates in child processes ({evals} replays)", saved.note);
    (best, evals)
}

// ---------------------------------------------------------------------------------------
// orchestrator

pub struct RunSummary {
    pub violations: Vec<(String, PathBuf)>,
    pub inconclusive: Vec<String>,
    pub merged: WorkerResult,
    pub known_printed: Vec<String>,
    pub extra: BTreeMap<String, serde_json::Value>,
}

pub fn env_seed() -> u64 {
    std::env::var("VERIF_SEED")
        .ok()
        .and_then(|s| s.trim().parse::<i64>().ok())
        .map(|v| v as u64)
        .unwrap_or(1)
}

pub fn save_replay(id: &str, tag: &str, saved: &SavedFailure) -> PathBuf {
    let dir = PathBuf::from(format!("{}/replays", verif_dir()));
    std::fs::create_dir_all(&dir).unwrap();
    let p = dir.join(format!("{id}-{tag}.json"));
    std::fs::write(&p, serde_json::to_string_pretty(saved).unwrap()).unwrap();
    p
}

/// Step 1 of every check: replay committed regression files and known-finding witnesses.
pub fn replay_regress(id: &str, summary: &mut RunSummary) {
    let findings: Vec<Finding> = load_findings().into_iter().filter(|f| f.property == id).collect();
    let dir = PathBuf::from(format!("{}/regress", verif_dir()));
    let mut files: Vec<PathBuf> = std::fs::read_dir(&dir)
        .map(|d| {
            d.filter_map(|e| e.ok().map(|e| e.path()))
                .filter(|p| {
                    p.file_name()
                        .and_then(|n| n.to_str())
                        .map_or(false, |n| n.starts_with(&format!("{id}-")) && n.ends_with(".json"))
                })
                .collect()
        })
        .unwrap_or_default();
    files.sort();
    for f in files {
        let rel = format!("regress/{}", f.file_name().unwrap().to_str().unwrap());
        let finding = findings.iter().find(|k| k.witness == rel);
        let outcome = replay_in_child(id, &f);
        summary.merged.evaluations += 1;
        *summary.merged.classes.entry("regress-replay".into()).or_default() += 1;
        match (outcome, finding) {
            (ReplayOutcome::Pass, None) => {}
            (ReplayOutcome::Pass, Some(k)) => {
                // a listed finding that no longer reproduces: say so, it is not a violation
                println!(
                    "NOTE: property={id} listed finding no longer reproduces: {} ({})",
                    k.text, rel
                );
            }
            (ReplayOutcome::Fail(fl), Some(k)) if fl.sig == k.sig => {
                let line = format!("KNOWN-FINDING: property={id} {}", k.text);
                println!("{line}");
                summary.known_printed.push(line);
            }
            (ReplayOutcome::Fail(fl), _) => {
                println!("VIOLATION property={id} replay={}", f.display());
                eprintln!("  regress file fails: sig={} msg={}", fl.sig, fl.msg);
                summary.violations.push((fl.sig, f.clone()));
            }
            (ReplayOutcome::Died(d), Some(k)) if k.sig.starts_with("died:") => {
                let _ = d;
                let line = format!("KNOWN-FINDING: property={id} {}", k.text);
                println!("{line}");
                summary.known_printed.push(line);
            }
            (ReplayOutcome::Died(d), _) => {
                println!("VIOLATION property={id} replay={}", f.display());
                eprintln!("  regress file kills the process: {d}");
                summary.violations.push((format!("died:{d}"), f.clone()));
            }
        }
    }
}

pub fn run_check<P: Property>(tier: Tier) -> i32 {
    let t0 = Instant::now();
    let seed = env_seed();
    let mut summary = RunSummary {
        violations: vec![],
        inconclusive: vec![],
        merged: WorkerResult::default(),
        known_printed: vec![],
        extra: BTreeMap::new(),
    };
    replay_regress(P::ID, &mut summary);
    run_workers::<P>(tier, seed, &mut summary);
    finish::<P>(tier, seed, t0, summary)
}

/// Sound evidence that a process can never make progress again (DESIGN 2.6): every thread sits
/// in a futex wait without timeout (nobody is left to wake anybody in a closed process) and the
/// process consumed no cpu between three samples one second apart.
pub fn process_blocked_forever(pid: u32) -> bool {
    let sample = || -> Option<(bool, u64)> {
        let mut all_futex = true;
        let mut ticks = 0u64;
        let mut n = 0;
        for t in std::fs::read_dir(format!("/proc/{pid}/task")).ok()?.flatten() {
            n += 1;
            let sc = std::fs::read_to_string(t.path().join("syscall")).ok()?;
            let f: Vec<&str> = sc.split_whitespace().collect();
            // x86_64: futex = 202; 4th argument = timeout pointer (0 = wait forever)
            let is_futex_forever = f.first() == Some(&"202") && f.get(4).map_or(false, |a| *a == "0x0");
            if !is_futex_forever {
                all_futex = false;
            }
            let stat = std::fs::read_to_string(t.path().join("stat")).ok()?;
            let rest = stat.rsplit_once(')')?.1;
            let s: Vec<&str> = rest.split_whitespace().collect();
            ticks += s.get(11).and_then(|x| x.parse::<u64>().ok()).unwrap_or(0) + s.get(12).and_then(|x| x.parse::<u64>().ok()).unwrap_or(0);
        }
        if n == 0 {
            return None;
        }
        Some((all_futex, ticks))
    };
    let Some((a1, t1)) = sample() else { return false };
    std::thread::sleep(Duration::from_secs(1));
    let Some((a2, t2)) = sample() else { return false };
    std::thread::sleep(Duration::from_secs(1));
    let Some((a3, t3)) = sample() else { return false };
    a1 && a2 && a3 && t1 == t2 && t2 == t3
}

pub fn run_workers<P: Property>(tier: Tier, seed: u64, summary: &mut RunSummary) {
    let nworkers = P::workers(tier).max(1);
    let outdir = tempfile::Builder::new()
        .prefix(&format!("jbkv-{}-out-", P::ID))
        .tempdir_in(scratch_root())
        .unwrap();
    let exe = std::env::current_exe().unwrap();
    let mut children: Vec<Option<std::process::Child>> = (0..nworkers)
        .map(|w| {
            Some(
                std::process::Command::new(&exe)
                    .env("JBKV_QUIET_PANICS", "1")
                    .arg("worker")
                    .arg(P::ID)
                    .arg(tier.name())
                    .arg(seed.to_string())
                    .arg(w.to_string())
                    .arg(nworkers.to_string())
                    .arg(outdir.path())
                    .stdout(std::process::Stdio::null())
                    .stderr(std::process::Stdio::piped())
                    .spawn()
                    .expect("spawn worker"),
            )
        })
        .collect();
    let timeout = Duration::from_secs(P::case_timeout_s(tier));
    let mut last_progress: Vec<(Instant, Option<std::time::SystemTime>)> =
        (0..nworkers).map(|_| (Instant::now(), None)).collect();
    loop {
        let mut running = 0;
        for w in 0..nworkers {
            let Some(child) = children[w].as_mut() else {
                continue;
            };
            match child.try_wait().unwrap() {
                Some(status) => {
                    let mut child = children[w].take().unwrap();
                    let mut stderr = String::new();
                    if let Some(mut e) = child.stderr.take() {
                        use std::io::Read;
                        let _ = e.read_to_string(&mut stderr);
                    }
                    let resfile = outdir.path().join(format!("w{w}.json"));
                    if status.success() && resfile.exists() {
                        let r: WorkerResult =
                            serde_json::from_slice(&std::fs::read(&resfile).unwrap()).unwrap();
                        merge::<P>(summary, r, seed, w);
                    } else {
                        // the worker died: the in-flight case is the witness
                        let inflight = outdir.path().join(format!("inflight{w}.json"));
                        let last = stderr
                            .lines()
                            .rev()
                            .find(|l| !l.trim().is_empty())
                            .unwrap_or("")
                            .to_string();
                        match std::fs::read(&inflight)
                            .ok()
                            .and_then(|b| serde_json::from_slice::<serde_json::Value>(&b).ok())
                        {
                            Some(case) => {
                                let sig = format!("died:{}", normalize_sig(&format!("{status} {last}")));
                                let known = known_sigs(P::ID);
                                let saved = SavedFailure {
                                    property: P::ID.into(),
                                    sig: sig.clone(),
                                    msg: format!("worker process died ({status}); last stderr line: {last}"),
                                    case,
                                    note: "in-flight case of a dead worker".into(),
                                };
                                if known.contains(&sig) {
                                    *summary.merged.excluded_known.entry(sig).or_default() += 1;
                                } else {
                                    let (saved, n) = shrink_dead_case(P::ID, &saved, 120, Duration::from_secs(180));
                                    summary.merged.shrink_runs += n as u64;
                                    let p = save_replay(P::ID, &format!("s{seed}-w{w}-died"), &saved);
                                    println!("VIOLATION property={} replay={}", P::ID, p.display());
                                    eprintln!("  {}", saved.msg);
                                    summary.violations.push((saved.sig.clone(), p));
                                }
                            }
                            None => {
                                summary
                                    .inconclusive
                                    .push(format!("worker {w} died without in-flight case: {status} {last}"));
                            }
                        }
                    }
                }
                None => {
                    running += 1;
                    // watchdog on the in-flight file
                    let inflight = outdir.path().join(format!("inflight{w}.json"));
                    let m = std::fs::metadata(&inflight).and_then(|m| m.modified()).ok();
                    if m != last_progress[w].1 {
                        last_progress[w] = (Instant::now(), m);
                    } else if last_progress[w].0.elapsed() > Duration::from_secs(20) && process_blocked_forever(child.id()) {
                        // deadlock of the code under test (or of the harness): the in-flight case is the witness
                        let _ = child.kill();
                        let _ = child.wait();
                        children[w] = None;
                        if let Some(case) = std::fs::read(&inflight).ok().and_then(|b| serde_json::from_slice::<serde_json::Value>(&b).ok()) {
                            let saved = SavedFailure {
                                property: P::ID.into(),
                                sig: "blocked-forever".into(),
                                msg: "every thread of the worker process waits on a futex without timeout and the process consumes no cpu: deadlock while running this case".into(),
                                case,
                                note: "in-flight case of a deadlocked worker (not shrunk)".into(),
                            };
                            if known_sigs(P::ID).contains(&saved.sig) {
                                *summary.merged.excluded_known.entry(saved.sig).or_default() += 1;
                            } else {
                                let p = save_replay(P::ID, &format!("s{seed}-w{w}-blocked"), &saved);
                                println!("VIOLATION property={} replay={}", P::ID, p.display());
                                eprintln!("  {}", saved.msg);
                                summary.violations.push((saved.sig.clone(), p));
                            }
                        }
                    } else if last_progress[w].0.elapsed() > timeout {
                        let _ = child.kill();
                        let _ = child.wait();
                        children[w] = None;
                        let saved = std::fs::read(&inflight).ok();
                        let p = PathBuf::from(format!("{}/replays", verif_dir()));
                        std::fs::create_dir_all(&p).unwrap();
                        let p = p.join(format!("{}-s{seed}-w{w}-timeout.json", P::ID));
                        if let Some(b) = saved {
                            let _ = std::fs::write(&p, b);
                        }
                        summary.inconclusive.push(format!(
                            "worker {w}: a case made no progress for {}s (saved to {})",
                            timeout.as_secs(),
                            p.display()
                        ));
                    }
                }
            }
        }
        if running == 0 {
            break;
        }
        std::thread::sleep(Duration::from_millis(50));
    }
}

fn merge<P: Property>(summary: &mut RunSummary, r: WorkerResult, seed: u64, w: usize) {
    let m = &mut summary.merged;
    m.evaluations += r.evaluations;
    m.cases += r.cases;
    m.nontrivial_cases += r.nontrivial_cases;
    m.shrink_runs += r.shrink_runs;
    for k in r.nontrivial_keys {
        m.nontrivial_keys.insert(k);
    }
    for (k, v) in r.classes {
        *m.classes.entry(k).or_default() += v;
    }
    for (k, v) in r.excluded_known {
        *m.excluded_known.entry(k).or_default() += v;
    }
    for s in r.samples {
        if m.samples.len() < 5 {
            m.samples.push(s);
        }
    }
    if let Some(f) = r.failure {
        if f.sig == "generator-abort" {
            summary.inconclusive.push(f.msg);
        } else {
            let p = save_replay(P::ID, &format!("s{seed}-w{w}"), &f);
            println!("VIOLATION property={} replay={}", P::ID, p.display());
            eprintln!("  sig={} msg={}", f.sig, f.msg);
            summary.violations.push((f.sig.clone(), p));
        }
    }
}

pub fn finish<P: Property>(tier: Tier, seed: u64, t0: Instant, mut summary: RunSummary) -> i32 {
    // generator reach
    for c in P::required_classes(tier) {
        if summary.merged.classes.get(c).copied().unwrap_or(0) == 0 && summary.violations.is_empty() {
            summary
                .inconclusive
                .push(format!("generator does not reach class '{c}'"));
        }
    }
    write_evidence(
        P::ID,
        P::LEVEL,
        tier,
        seed,
        &P::rule(),
        P::assumptions(),
        t0,
        &summary,
    );
    for (sig, p) in &summary.violations {
        eprintln!("violation: {} -> {}", sig, p.display());
    }
    if !summary.violations.is_empty() {
        return 1;
    }
    if !summary.inconclusive.is_empty() {
        for i in &summary.inconclusive {
            eprintln!("INCONCLUSIVE property={}: {i}", P::ID);
        }
        return 2;
    }
    println!(
        "OK property={} tier={} seed={} cases={} evaluations={} distinct_nontrivial={} wall_s={:.1}",
        P::ID,
        tier.name(),
        seed,
        summary.merged.cases,
        summary.merged.evaluations,
        summary.merged.nontrivial_keys.len(),
        t0.elapsed().as_secs_f64()
    );
    0
}

#[allow(clippy::too_many_arguments)]
pub fn write_evidence(
    id: &str,
    level: &str,
    tier: Tier,
    seed: u64,
    rule: &str,
    assumptions: Vec<String>,
    t0: Instant,
    summary: &RunSummary,
) {
    let m = &summary.merged;
    let mut coverage = serde_json::json!({
        "evaluations": m.evaluations,
        "generated_cases": m.cases,
        "nontrivial_cases": m.nontrivial_cases,
        "distinct_nontrivial": m.nontrivial_keys.len(),
        "rule": rule,
        "samples": m.samples,
        "classes": m.classes,
        "excluded_by_known_finding": m.excluded_known,
        "shrink_runs": m.shrink_runs,
        "known_findings_reported": summary.known_printed,
        "inconclusive": summary.inconclusive,
        "violation_signatures": summary.violations.iter().map(|(s, p)| format!("{s} -> {}", p.display())).collect::<Vec<_>>(),
    });
    for (k, v) in &summary.extra {
        coverage[k] = v.clone();
    }
    if let Ok(t) = std::env::var("JBKV_TSAN_RESULT") {
        coverage["thread_sanitizer_tier"] = serde_json::Value::String(t);
    }
    if let Ok(t) = std::env::var("JBKV_FUZZ_RESULT") {
        coverage["libfuzzer_supplement"] = serde_json::Value::String(t);
    }
    let ev = serde_json::json!({
        "property_id": id,
        "tier": tier.name(),
        "seed": seed as i64,
        "level": level,
        "coverage": coverage,
        "assumptions": assumptions,
        "wall_s": t0.elapsed().as_secs_f64(),
        "violations": summary.violations.len(),
    });
    let dir = PathBuf::from(format!("{}/evidence", verif_dir()));
    std::fs::create_dir_all(&dir).unwrap();
    let suffix = std::env::var("JBKV_EVIDENCE_SUFFIX").unwrap_or_default();
    std::fs::write(
        dir.join(format!("{id}{suffix}.json")),
        serde_json::to_string_pretty(&ev).unwrap(),
    )
    .unwrap();
}

/// `jbkv replay <ID> <file>` (user facing)
pub fn replay_cmd<P: Property>(path: &Path) -> i32 {
    match replay_in_child(P::ID, path) {
        ReplayOutcome::Pass => {
            println!("PASS property={} replay={}", P::ID, path.display());
            0
        }
        ReplayOutcome::Fail(f) => {
            println!("VIOLATION property={} replay={}", P::ID, path.display());
            eprintln!("  sig={} msg={}", f.sig, f.msg);
            1
        }
        ReplayOutcome::Died(d) => {
            println!("VIOLATION property={} replay={}", P::ID, path.display());
            eprintln!("  process died: {d}");
            1
        }
    }
}

/// monotone index mapping for shrinking (i in 0..=65535 -> 0..len)
pub fn pick(i: u16, len: usize) -> usize {
    if len == 0 {
        0
    } else {
        ((i as usize) * len) >> 16
    }
}

pub fn boxed<S: Strategy + 'static>(s: S) -> BoxedStrategy<S::Value> {
    s.boxed()
}
