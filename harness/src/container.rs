//! Whole containers through `BasicCreator` (DESIGN 2.1): spec, builder, model, read helpers.

use crate::dirgen::*;
use crate::engine::Failure;
use crate::gen::*;
use crate::indep::DVal;
use crate::{ensure, fail};
use jubako as jbk;
use jbk::reader::Range;
use proptest::prelude::*;
use serde::{Deserialize, Serialize};
use std::collections::BTreeMap;
use std::io::Read;
use std::path::{Path, PathBuf};
use std::sync::Arc;

#[derive(Serialize, Deserialize, Clone, Copy, Debug, PartialEq, Eq, Hash)]
pub enum Packaging {
    OneFile,
    TwoFiles,
    NoConcat,
}

impl Packaging {
    pub fn to_jbk(self) -> jbk::creator::ConcatMode {
        match self {
            Packaging::OneFile => jbk::creator::ConcatMode::OneFile,
            Packaging::TwoFiles => jbk::creator::ConcatMode::TwoFiles,
            Packaging::NoConcat => jbk::creator::ConcatMode::NoConcat,
        }
    }
    pub const ALL: [Packaging; 3] = [Packaging::OneFile, Packaging::TwoFiles, Packaging::NoConcat];
}

pub fn packaging_strategy() -> BoxedStrategy<Packaging> {
    prop_oneof![Just(Packaging::OneFile), Just(Packaging::TwoFiles), Just(Packaging::NoConcat)].boxed()
}

#[derive(Serialize, Deserialize, Clone, Debug, PartialEq, Eq)]
pub struct ExtraPack {
    pub comp: Comp,
    pub contents: Vec<ContentSpec>,
    /// pack id class: 0 => 2+k, then 254+k, 256+k, 300+k, 65534+k (k = 0, 1: no collision; 65535 is the last id)
    #[serde(default)]
    pub id_class: u8,
    /// where the pack's file is written: 0 next to the entry point, 1 in a sub-directory of the
    /// output directory, 2 in a sibling directory (its recorded location starts with `..`)
    #[serde(default)]
    pub place: u8,
}

/// copy `from/rel` to `to/rel`, creating directories; a no-op when both name the same file
/// (a `..` placement reached from two sibling directories)
pub fn copy_rel(from: &Path, to: &Path, rel: &str) {
    let src = from.join(rel);
    let dst = to.join(rel);
    if let Some(p) = dst.parent() {
        std::fs::create_dir_all(p).unwrap();
    }
    let same = match (std::fs::canonicalize(&src), std::fs::canonicalize(&dst)) {
        (Ok(a), Ok(b)) => a == b,
        _ => false,
    };
    if !same {
        std::fs::copy(&src, &dst).unwrap();
    }
}

impl ExtraPack {
    /// file of the k-th extra pack relative to the output directory `dir`
    pub fn rel_path(&self, k: usize, dir: &Path) -> String {
        match self.place % 3 {
            0 => format!("extra{k}.jbkc"),
            1 => format!("sub/extra{k}.jbkc"),
            _ => format!("../{}.sib/extra{k}.jbkc", dir.file_name().unwrap().to_string_lossy()),
        }
    }
    pub fn pack_id(&self, k: usize) -> u16 {
        [2u16, 254, 256, 300, 65534][(self.id_class % 5) as usize] + k as u16
    }
}

#[derive(Serialize, Deserialize, Clone, Debug, PartialEq, Eq)]
pub struct ContainerSpec {
    pub packaging: Packaging,
    pub comp: Comp,
    pub contents: Vec<ContentSpec>,
    /// further content packs (ids 2, 3, ..) written to their own files `extra<k>.jbkc`
    pub extra_packs: Vec<ExtraPack>,
    pub dedup: bool,
    pub dir: DirSpec,
}

pub fn container_strategy(max_extra: usize, dir: BoxedStrategy<DirSpec>) -> BoxedStrategy<ContainerSpec> {
    (
        packaging_strategy(),
        comp_strategy(),
        small_content_seq_strategy(),
        prop::collection::vec(
            (comp_strategy(), small_content_seq_strategy(), prop_oneof![4 => Just(0u8), 1 => 1u8..5]).prop_map(|(comp, contents, id_class)| ExtraPack { comp, contents, id_class, place: 0 }),
            0..=max_extra,
        ),
        prop::bool::weighted(0.2),
        dir,
    )
        .prop_map(|(packaging, comp, contents, extra_packs, dedup, dir)| ContainerSpec {
            packaging,
            comp,
            contents,
            extra_packs,
            dedup,
            dir,
        })
        .boxed()
}

#[derive(Clone, Debug)]
pub struct ContainerModel {
    /// every inserted content: address returned by the creator and its bytes (main pack first)
    pub contents: Vec<(jbk::ContentAddress, Vec<u8>)>,
    /// content count per pack id
    pub pack_counts: BTreeMap<u16, u32>,
    pub dir: DirModel,
}

pub struct Built {
    pub main_path: PathBuf,
    pub dir: PathBuf,
    pub model: ContainerModel,
    pub bounds: Vec<Vec<jbk::Bound<jbk::EntryIdx>>>,
    /// files produced, relative names
    pub files: Vec<String>,
}

fn utf8(p: &Path) -> jbk::Utf8PathBuf {
    jbk::Utf8PathBuf::from_path_buf(p.to_path_buf()).unwrap()
}

/// Input fault for the crash engine (E3): content number `.0` of the main pack is handed over as a
/// file that cannot be read any more when the creator gets to it. Kind 0: the handle is not
/// readable at all; 1: the file is cut to half its length right after `add_content` returned;
/// 2: cut to nothing. Set only by `create-child`.
pub static INPUT_FAULT: std::sync::Mutex<Option<(usize, u8)>> = std::sync::Mutex::new(None);

fn faulty_reader(bytes: &[u8], kind: u8) -> (Box<dyn jbk::creator::InputReader>, Option<(std::fs::File, u64)>) {
    use std::io::Write;
    let dir = crate::engine::scratch_root();
    let mut named = tempfile::NamedTempFile::new_in(dir).unwrap();
    named.write_all(bytes).unwrap();
    named.flush().unwrap();
    if kind == 0 {
        let f = std::fs::OpenOptions::new().write(true).open(named.path()).unwrap();
        return (Box::new(jbk::creator::InputFile::new(f).unwrap()), None);
    }
    let f = std::fs::OpenOptions::new().read(true).write(true).open(named.path()).unwrap();
    let cut = f.try_clone().unwrap();
    let to = if kind == 1 { bytes.len() as u64 / 2 } else { 0 };
    (Box::new(jbk::creator::InputFile::new(f).unwrap()), Some((cut, to)))
}

/// Build a container with the high-level creator. Errors/panics of the creator on this
/// (in-domain) input are failures.
pub fn build(
    spec: &ContainerSpec,
    dir: &Path,
    name: &str,
    progress: Option<Arc<dyn jbk::creator::Progress>>,
) -> Result<Built, Failure> {
    let out = utf8(&dir.join(name));
    let progress: Arc<dyn jbk::creator::Progress> = progress.unwrap_or_else(|| Arc::new(()));
    let mut creator = match jbk::creator::BasicCreator::new(&out, spec.packaging.to_jbk(), vendor(), spec.comp.to_jbk(), progress) {
        Ok(c) => c,
        Err(e) => fail!("create-error", "BasicCreator::new: {e}"),
    };
    let mut contents: Vec<(jbk::ContentAddress, Vec<u8>)> = vec![];
    let mut pack_counts = BTreeMap::new();
    let bytes = resolve_contents(&spec.contents);
    {
        let mut add = |adder: &mut dyn jbk::creator::ContentAdder| -> Result<(), Failure> {
            let fault = *INPUT_FAULT.lock().unwrap();
            for (k, (c, b)) in spec.contents.iter().zip(bytes.iter()).enumerate() {
                let (reader, cut) = match fault {
                    Some((at, kind)) if at == k => faulty_reader(b, kind),
                    _ => (make_reader(b, c.source), None),
                };
                match adder.add_content(reader, c.hint.to_jbk()) {
                    Ok(a) => contents.push((a, b.clone())),
                    Err(e) => fail!("add-error", "add_content: {e}"),
                }
                if let Some((f, to)) = cut {
                    f.set_len(to).unwrap();
                }
            }
            Ok(())
        };
        if spec.dedup {
            // the dedup adder wraps any ContentAdder; BasicCreator is one
            let mut adder = jbk::creator::CachedContentAdder::new(creator, std::rc::Rc::new(()));
            add(&mut adder)?;
            creator = adder.into_inner();
        } else {
            add(&mut creator)?;
        }
    }
    let main_count = contents.iter().map(|(a, _)| a.content_id.into_u32() + 1).max().unwrap_or(0);
    pack_counts.insert(1u16, main_count);
    let mut extras: Vec<jbk::creator::ContentPackCreator<dyn jbk::creator::PackRecipient>> = vec![];
    for (k, ep) in spec.extra_packs.iter().enumerate() {
        let pack_id = ep.pack_id(k);
        let rel = ep.rel_path(k, dir);
        if let Some(parent) = dir.join(&rel).parent() {
            std::fs::create_dir_all(parent).unwrap();
        }
        // the creator is given the plain path of the file (no `..` component in it)
        let p = match (ep.place % 3, dir.parent()) {
            (2, Some(up)) => utf8(&up.join(rel.trim_start_matches("../"))),
            _ => utf8(&dir.join(&rel)),
        };
        let f: Box<dyn jbk::creator::PackRecipient> = match jbk::creator::AtomicOutFile::new(&p) {
            Ok(f) => f,
            Err(e) => fail!("create-error", "AtomicOutFile::new: {e}"),
        };
        let mut ec = match jbk::creator::ContentPackCreator::new_from_output(f, jbk::PackId::from(pack_id), vendor(), Default::default(), ep.comp.to_jbk()) {
            Ok(c) => c,
            Err(e) => fail!("create-error", "extra ContentPackCreator: {e}"),
        };
        let eb = resolve_contents(&ep.contents);
        for (c, b) in ep.contents.iter().zip(eb.iter()) {
            match ec.add_content(make_reader(b, c.source), c.hint.to_jbk()) {
                Ok(a) => contents.push((a, b.clone())),
                Err(e) => fail!("add-error", "extra add_content: {e}"),
            }
        }
        pack_counts.insert(pack_id, ep.contents.len() as u32);
        extras.push(ec);
    }
    let addresses: Vec<(u16, u32)> = contents.iter().map(|(a, _)| (a.pack_id.into_u16(), a.content_id.into_u32())).collect();
    let dmodel = build_model(&spec.dir, &addresses);
    let slot = Arc::new(std::sync::Mutex::new(None));
    let installer = Box::new(Installer { build: build_dir(&dmodel), out: Arc::clone(&slot) });
    if let Err(e) = creator.finalize(installer, extras) {
        fail!("finalize-error", "BasicCreator::finalize: {e}");
    }
    let bounds = slot.lock().unwrap().take().unwrap_or_default();
    let mut files: Vec<String> = std::fs::read_dir(dir)
        .unwrap()
        .filter_map(|e| e.ok())
        .filter(|e| e.path().is_file())
        .map(|e| e.file_name().to_string_lossy().to_string())
        .collect();
    files.sort();
    for (k, ep) in spec.extra_packs.iter().enumerate() {
        if ep.place % 3 != 0 {
            files.push(ep.rel_path(k, dir));
        }
    }
    Ok(Built {
        main_path: dir.join(name),
        dir: dir.to_path_buf(),
        model: ContainerModel { contents, pack_counts, dir: dmodel },
        bounds,
        files,
    })
}

#[derive(Debug, Clone, PartialEq, Eq)]
pub enum ContentRead {
    Bytes(Vec<u8>),
    NoSuchPack,
    NoSuchContent,
    Missing { pack_id: u16, uuid: [u8; 16], location: String },
    Error(String),
}

impl ContentRead {
    pub fn describe(&self) -> String {
        match self {
            ContentRead::Bytes(b) => format!("{} bytes", b.len()),
            ContentRead::NoSuchPack => "no such pack".into(),
            ContentRead::NoSuchContent => "no such content".into(),
            ContentRead::Missing { pack_id, location, .. } => format!("pack {pack_id} missing (location {location:?})"),
            ContentRead::Error(e) => format!("error: {e}"),
        }
    }
}

pub fn describe_bytes(b: &Option<jbk::reader::MayMissPack<Option<jbk::reader::ByteRegion>>>) -> String {
    match b {
        None => "no such pack".into(),
        Some(jbk::reader::MayMissPack::MISSING(pi)) => format!("missing pack {}", pi.pack_id.into_u16()),
        Some(jbk::reader::MayMissPack::FOUND(None)) => "no such content".into(),
        Some(jbk::reader::MayMissPack::FOUND(Some(r))) => format!("{} bytes", r.size().into_u64()),
    }
}

/// The same question through the helper methods of `MayMissPack` (the idiom documented on
/// `Container::get_bytes` and used by the repository's examples: `.and_then(|m| m.transpose())`,
/// `get()`, `map`, `as_ref`): must tell the same story as matching on the variants.
fn helpers_disagree(c: &jbk::reader::Container, a: jbk::ContentAddress) -> Option<String> {
    use jbk::reader::MayMissPack as M;
    let shape = |m: &Option<M<Option<jbk::reader::ByteRegion>>>| match m {
        None => "no-such-pack",
        Some(M::MISSING(_)) => "missing",
        Some(M::FOUND(None)) => "no-such-content",
        Some(M::FOUND(Some(_))) => "found",
    };
    let direct = c.get_bytes(a).ok()?;
    let want = shape(&direct);
    // transpose: FOUND(None) -> None, MISSING -> Some(MISSING), FOUND(Some) -> Some(FOUND)
    let t = match c.get_bytes(a).ok()?.and_then(|m| m.transpose()) {
        None => "none",
        Some(M::MISSING(_)) => "missing",
        Some(M::FOUND(_)) => "found",
    };
    let t_want = match want {
        "no-such-pack" | "no-such-content" => "none",
        w => w,
    };
    if t != t_want {
        return Some(format!("get_bytes answers {want}, get_bytes(..).and_then(|m| m.transpose()) answers {t}"));
    }
    // get(): Some only when found
    let g = match c.get_bytes(a).ok()?.map(|m| m.get()) {
        None => "no-such-pack",
        Some(None) => "missing",
        Some(Some(None)) => "no-such-content",
        Some(Some(Some(_))) => "found",
    };
    if g != want {
        return Some(format!("get_bytes answers {want}, through MayMissPack::get it reads as {g}"));
    }
    // map + as_ref keep the variant (and the description of a missing pack)
    if let Some(m) = c.get_bytes(a).ok()? {
        let size = m.as_ref().map(|o| o.as_ref().map(|r| r.size().into_u64()));
        let s = match (&size, want) {
            (M::MISSING(_), "missing") | (M::FOUND(None), "no-such-content") | (M::FOUND(Some(_)), "found") => true,
            _ => false,
        };
        if !s {
            return Some(format!("get_bytes answers {want}, as_ref().map(..) changes the variant"));
        }
        if let (M::MISSING(p1), Some(M::MISSING(p2))) = (&size, &direct) {
            if p1.uuid != p2.uuid || p1.pack_id != p2.pack_id || p1.pack_location != p2.pack_location {
                return Some("as_ref() of a MISSING answer describes another pack".into());
            }
        }
    }
    // the pack itself, the same way
    match (c.get_pack(a.pack_id), want) {
        (Ok(None), "no-such-pack") | (Ok(Some(M::MISSING(_))), "missing") | (Ok(Some(M::FOUND(_))), "found" | "no-such-content") => None,
        (Err(_), _) => None,
        (other, _) => Some(format!("get_bytes answers {want}, get_pack answers {}", match other { Ok(None) => "no such pack", Ok(Some(M::MISSING(_))) => "missing", _ => "found" })),
    }
}

pub fn read_content(c: &jbk::reader::Container, a: jbk::ContentAddress) -> ContentRead {
    if let Some(d) = helpers_disagree(c, a) {
        return ContentRead::Error(format!("MayMissPack helpers disagree: {d}"));
    }
    match c.get_bytes(a) {
        Err(e) => ContentRead::Error(e.to_string()),
        Ok(None) => ContentRead::NoSuchPack,
        Ok(Some(jbk::reader::MayMissPack::MISSING(pi))) => ContentRead::Missing {
            pack_id: pi.pack_id.into_u16(),
            uuid: *pi.uuid.as_bytes(),
            location: pi.pack_location.to_string(),
        },
        Ok(Some(jbk::reader::MayMissPack::FOUND(None))) => ContentRead::NoSuchContent,
        Ok(Some(jbk::reader::MayMissPack::FOUND(Some(r)))) => {
            let mut v = Vec::with_capacity(r.size().into_u64() as usize);
            match r.stream().read_to_end(&mut v) {
                Ok(_) => ContentRead::Bytes(v),
                Err(e) => ContentRead::Error(format!("read: {e}")),
            }
        }
    }
}

/// Compare an opened container with the model: all entries of all indexes, all contents, check().
pub fn verify_container(c: &jbk::reader::Container, model: &ContainerModel, sig_prefix: &str) -> Result<u64, Failure> {
    let mut evals = 0;
    for sm in &model.dir.stores {
        evals += verify_store_against_model(c.get_directory_pack(), sm, sig_prefix)?;
    }
    for (i, (a, b)) in model.contents.iter().enumerate() {
        match read_content(c, *a) {
            ContentRead::Bytes(v) => {
                ensure!(&v == b, format!("{sig_prefix}content-bytes"), "content #{i} {a:?}: read {} bytes, inserted {}", v.len(), b.len());
            }
            other => fail!(format!("{sig_prefix}content-unreadable"), "content #{i} {a:?}: {}", other.describe()),
        }
        evals += 1;
    }
    match c.check() {
        Ok(true) => {}
        Ok(false) => fail!(format!("{sig_prefix}check-false"), "container check answers false"),
        Err(e) => fail!(format!("{sig_prefix}check-error"), "container check: {e}"),
    }
    Ok(evals)
}

/// Logical dump of a container as the reader sees it (DESIGN 2.3), serialisable.
#[derive(Serialize, Deserialize, Clone, Debug, PartialEq, Eq)]
pub struct Dump {
    pub pack_count: u16,
    /// (pack id, content count or -1 when the pack is missing)
    pub packs: Vec<(u16, i64)>,
    /// index name -> (store id, offset, count, entries)
    pub indexes: BTreeMap<String, (u32, u32, u32, Vec<(Option<u8>, BTreeMap<String, DVal>)>)>,
    /// address -> (size, blake3 hex) | marker
    pub contents: BTreeMap<String, String>,
    pub check: String,
}

pub fn dump_container(c: &jbk::reader::Container, index_names: &[String], addresses: &[(u16, u32)]) -> Result<Dump, String> {
    let mut indexes = BTreeMap::new();
    for name in index_names {
        let oi = open_index(c.get_directory_pack(), &|ix| ix.get_store(c.get_entry_storage()), c.get_value_storage(), name)?;
        let mut entries = vec![];
        for i in 0..oi.count() {
            entries.push(oi.entry(i as u32)?.ok_or_else(|| format!("index {name}: entry {i} is None"))?);
        }
        indexes.insert(
            name.clone(),
            (oi.index.get_store_id().into_u32(), oi.index.offset().into_u32(), oi.count() as u32, entries),
        );
    }
    let mut contents = BTreeMap::new();
    let mut pack_ids: Vec<u16> = addresses.iter().map(|a| a.0).collect();
    pack_ids.sort();
    pack_ids.dedup();
    let mut packs = vec![];
    for id in pack_ids {
        match c.get_pack(id.into()).map_err(|e| format!("get_pack({id}): {e}"))? {
            None => packs.push((id, -2)),
            Some(jbk::reader::MayMissPack::MISSING(_)) => packs.push((id, -1)),
            Some(jbk::reader::MayMissPack::FOUND(p)) => packs.push((id, p.get_content_count().into_u32() as i64)),
        }
    }
    for (p, cid) in addresses {
        let key = format!("{p}:{cid}");
        let v = match read_content(c, jbk::ContentAddress::new((*p).into(), (*cid).into())) {
            ContentRead::Bytes(b) => format!("{} {}", b.len(), blake3::hash(&b).to_hex()),
            ContentRead::Error(e) => return Err(format!("content {key}: {e}")),
            other => other.describe(),
        };
        contents.insert(key, v);
    }
    let check = match c.check() {
        Ok(b) => format!("{b}"),
        Err(e) => return Err(format!("check: {e}")),
    };
    Ok(Dump { pack_count: c.pack_count().into_u16(), packs, indexes, contents, check })
}

pub fn index_names(model: &DirModel) -> Vec<String> {
    model.stores.iter().flat_map(|s| s.windows.iter().map(|w| w.0.clone())).collect()
}

/// The dump the model predicts (same shape as `dump_container`).
pub fn model_dump(model: &ContainerModel) -> (Dump, Vec<String>, Vec<(u16, u32)>) {
    let mut indexes = BTreeMap::new();
    for (si, sm) in model.dir.stores.iter().enumerate() {
        for (name, off, cnt) in &sm.windows {
            let entries = (0..*cnt).map(|i| sm.expected_at(off + i)).collect();
            indexes.insert(name.clone(), (si as u32, *off as u32, *cnt as u32, entries));
        }
    }
    let addresses: Vec<(u16, u32)> = model.contents.iter().map(|(a, _)| (a.pack_id.into_u16(), a.content_id.into_u32())).collect();
    let mut contents = BTreeMap::new();
    for (a, b) in &model.contents {
        contents.insert(format!("{}:{}", a.pack_id.into_u16(), a.content_id.into_u32()), format!("{} {}", b.len(), blake3::hash(b).to_hex()));
    }
    let mut pack_ids: Vec<u16> = addresses.iter().map(|a| a.0).collect();
    pack_ids.sort();
    pack_ids.dedup();
    let packs = pack_ids.iter().map(|id| (*id, model.pack_counts.get(id).copied().unwrap_or(0) as i64)).collect();
    let dump = Dump { pack_count: 1 + model.pack_counts.len() as u16, packs, indexes, contents, check: "true".into() };
    (dump, index_names(&model.dir), addresses)
}

/// A one-file container assembled with the low-level creators (ContainerPackCreator,
/// ContentPackCreator, DirectoryPackCreator, ManifestPackCreator): `packs` content packs (ids 1..),
/// each carrying `free_data_len` bytes of application free data in the manifest's value store.
/// `dir_slot`: how many content packs the manifest declares BEFORE the directory pack (0 = the
/// order every high-level creator uses).
pub fn build_lowlevel(dir: &Path, name: &str, packs: &[(Comp, Vec<ContentSpec>)], free_data_len: usize, dirspec: &DirSpec, dir_slot: usize) -> Result<Built, Failure> {
    build_lowlevel_fd(dir, name, packs, &|_| free_data_len, dirspec, dir_slot)
}

/// as `build_lowlevel`, the free data length chosen per content pack (k = 0 for the first one)
pub fn build_lowlevel_fd(dir: &Path, name: &str, packs: &[(Comp, Vec<ContentSpec>)], free_data_len: &dyn Fn(usize) -> usize, dirspec: &DirSpec, dir_slot: usize) -> Result<Built, Failure> {
    let path = utf8(&dir.join(name));
    let io = |e: std::io::Error| Failure::new("create-error", format!("low-level container: {e}"));
    let jb = |e: jbk::creator::Error| Failure::new("create-error", format!("low-level container: {e}"));
    let mut container = jbk::creator::ContainerPackCreator::new(&path, Default::default()).map_err(io)?;
    let mut contents: Vec<(jbk::ContentAddress, Vec<u8>)> = vec![];
    let mut datas = vec![];
    let mut pack_counts = BTreeMap::new();
    for (k, (comp, specs)) in packs.iter().enumerate() {
        let pack_id = k as u16 + 1;
        let file = container.into_file().map_err(io)?;
        let mut cp = jbk::creator::ContentPackCreator::new_from_output(file, jbk::PackId::from(pack_id), vendor(), Default::default(), comp.to_jbk()).map_err(io)?;
        let bytes = resolve_contents(specs);
        for (c, b) in specs.iter().zip(bytes.iter()) {
            let a = cp.add_content(make_reader(b, c.source), c.hint.to_jbk()).map_err(io)?;
            contents.push((a, b.clone()));
        }
        pack_counts.insert(pack_id, specs.len() as u32);
        let (file, mut data) = cp.finalize().map_err(io)?;
        data.free_data = content_bytes(pack_id as u32 + 4242, free_data_len(k), Entropy::High);
        container = file.close(data.uuid).map_err(io)?;
        datas.push(data);
    }
    let addresses: Vec<(u16, u32)> = contents.iter().map(|(a, _)| (a.pack_id.into_u16(), a.content_id.into_u32())).collect();
    let dmodel = build_model(dirspec, &addresses);
    let mut dp = jbk::creator::DirectoryPackCreator::new(jbk::PackId::from(0), vendor(), Default::default());
    let bounds = build_dir(&dmodel).install(&mut dp);
    let fin = dp.finalize().map_err(io)?;
    let mut file = container.into_file().map_err(io)?;
    let dir_data = fin.write(&mut file).map_err(jb)?;
    container = file.close(dir_data.uuid).map_err(io)?;
    let mut manifest = jbk::creator::ManifestPackCreator::new(vendor(), Default::default());
    let dir_slot = dir_slot.min(datas.len());
    let mut dir_data = Some(dir_data);
    for (k, d) in datas.into_iter().enumerate() {
        if k == dir_slot {
            manifest.add_pack(dir_data.take().unwrap(), "");
        }
        manifest.add_pack(d, "");
    }
    if let Some(d) = dir_data.take() {
        manifest.add_pack(d, "");
    }
    let mut file = container.into_file().map_err(io)?;
    let muuid = manifest.finalize(&mut file).map_err(jb)?;
    container = file.close(muuid).map_err(io)?;
    container.finalize().map_err(io)?;
    Ok(Built { main_path: dir.join(name), dir: dir.to_path_buf(), model: ContainerModel { contents, pack_counts, dir: dmodel }, bounds, files: vec![name.to_string()] })
}
