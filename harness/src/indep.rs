//! Independent decoder of the Jubako on-disk format (DESIGN 3).
//!
//! Imports nothing from the `jubako` crate. Written from `spec/*.rst` and, where the
//! prose is stale, from the bytes the pinned version writes (divergences listed in
//! DESIGN 3 are asserted here, so a change in either direction is seen).
//! Third-party crates used directly: blake3, zstd, lz4, xz2.

use std::collections::BTreeMap;
use std::io::Read;

pub type R<T> = Result<T, String>;

macro_rules! bail {
    ($($arg:tt)*) => { return Err(format!($($arg)*)) };
}
macro_rules! check {
    ($cond:expr, $($arg:tt)*) => { if !($cond) { return Err(format!($($arg)*)); } };
}

// ---------------------------------------------------------------------------------------
// primitives

/// CRC-32/Castagnoli polynomial, MSB first, init 0xFFFFFFFF, no reflection, no final xor.
pub fn crc32(data: &[u8]) -> u32 {
    static TABLE: std::sync::OnceLock<[u32; 256]> = std::sync::OnceLock::new();
    let table = TABLE.get_or_init(|| {
        let mut t = [0u32; 256];
        for (i, e) in t.iter_mut().enumerate() {
            let mut c = (i as u32) << 24;
            for _ in 0..8 {
                c = if c & 0x8000_0000 != 0 { (c << 1) ^ 0x1EDC_6F41 } else { c << 1 };
            }
            *e = c;
        }
        t
    });
    let mut crc = 0xFFFF_FFFFu32;
    for b in data {
        crc = (crc << 8) ^ table[(((crc >> 24) as u8) ^ *b) as usize];
    }
    crc
}

fn le(data: &[u8]) -> u64 {
    let mut v = 0u64;
    for (i, b) in data.iter().enumerate() {
        v |= (*b as u64) << (8 * i);
    }
    v
}

fn le_signed(data: &[u8]) -> i64 {
    let n = data.len();
    let v = le(data);
    if n == 8 {
        v as i64
    } else if v & (1u64 << (8 * n - 1)) != 0 {
        (v | (!0u64 << (8 * n))) as i64
    } else {
        v as i64
    }
}

fn slice<'a>(data: &'a [u8], off: u64, size: u64, what: &str) -> R<&'a [u8]> {
    let end = off.checked_add(size).ok_or_else(|| format!("{what}: offset overflow"))?;
    if end > data.len() as u64 {
        bail!("{what}: range {off}+{size} is outside the {} available bytes", data.len());
    }
    Ok(&data[off as usize..end as usize])
}

thread_local! {
    /// while a file is being decoded: (address of its first byte, its length) and the CRC-protected
    /// blocks seen so far as (absolute offset, data length)
    static FILE_BASE: std::cell::Cell<Option<(usize, usize)>> = const { std::cell::Cell::new(None) };
    static BLOCKS: std::cell::RefCell<Vec<(u64, u64)>> = const { std::cell::RefCell::new(Vec::new()) };
}

/// A block: `size` bytes followed by their CRC (big endian).
pub fn block<'a>(data: &'a [u8], off: u64, size: u64, what: &str) -> R<&'a [u8]> {
    let body = slice(data, off, size, what)?;
    if let Some((base, len)) = FILE_BASE.with(|b| b.get()) {
        let p = body.as_ptr() as usize;
        if p >= base && p + size as usize <= base + len {
            BLOCKS.with(|b| b.borrow_mut().push(((p - base) as u64, size)));
        }
    }
    let crc = slice(data, off + size, 4, what)?;
    let stored = u32::from_be_bytes([crc[0], crc[1], crc[2], crc[3]]);
    let computed = crc32(body);
    check!(
        stored == computed,
        "{what}: block at {off} size {size}: stored crc {stored:08x} != computed {computed:08x}"
    );
    Ok(body)
}

fn sized_offset(v: u64) -> (u64, u64) {
    (v >> 16, v & 0xFFFF) // (offset, size)
}

fn pstring<'a>(data: &'a [u8], pos: &mut usize, what: &str) -> R<&'a [u8]> {
    check!(*pos < data.len(), "{what}: pstring length out of block");
    let n = data[*pos] as usize;
    check!(*pos + 1 + n <= data.len(), "{what}: pstring body out of block");
    let s = &data[*pos + 1..*pos + 1 + n];
    *pos += 1 + n;
    Ok(s)
}

// ---------------------------------------------------------------------------------------
// file map (structure kinds per byte range, for stratified fault injection)

#[derive(Clone, Debug, PartialEq, Eq)]
pub struct Region {
    pub start: u64,
    pub end: u64,
    pub kind: String,
    /// index of the pack in `FileDec::packs` (usize::MAX: container level)
    pub pack: usize,
}

// ---------------------------------------------------------------------------------------
// pack header

#[derive(Clone, Debug, PartialEq, Eq)]
pub struct PackHeader {
    pub kind: u8, // b'm' b'd' b'c' b'C'
    pub vendor: [u8; 4],
    pub uuid: [u8; 16],
    pub size: u64,
    pub check_pos: u64,
}

pub fn pack_header(data: &[u8], off: u64) -> R<PackHeader> {
    let h = block(data, off, 60, "pack header")?;
    check!(&h[0..3] == b"jbk", "pack header: magic does not start with 'jbk'");
    let kind = h[3];
    check!(
        matches!(kind, b'm' | b'd' | b'c' | b'C'),
        "pack header: unknown pack kind {kind:#x}"
    );
    check!((h[8], h[9]) == (0, 2), "pack header: version is {}.{}, expected 0.2", h[8], h[9]);
    check!(h[26] == 0, "pack header: flags must be 0");
    check!(h[27..32].iter().all(|b| *b == 0), "pack header: reserved bytes 27..32 must be 0");
    check!(h[48..60].iter().all(|b| *b == 0), "pack header: reserved bytes 48..60 must be 0");
    Ok(PackHeader {
        kind,
        vendor: h[4..8].try_into().unwrap(),
        uuid: h[10..26].try_into().unwrap(),
        size: le(&h[32..40]),
        check_pos: le(&h[40..48]),
    })
}

// ---------------------------------------------------------------------------------------
// decoded structures

#[derive(Clone, Debug, PartialEq, Eq, serde::Serialize, serde::Deserialize, PartialOrd, Ord)]
pub enum DVal {
    U(u64),
    S(i64),
    A(Vec<u8>),
    C(u16, u32),
}

#[derive(Clone, Debug)]
pub struct ClusterDec {
    pub tail_off: u64, // relative to pack start
    pub tail_size: u64,
    pub comp: u8,
    pub offset_size: u8,
    pub raw_size: u64,
    pub data_size: u64,
    pub blob_offsets: Vec<u64>, // blob_count + 1 entries, first 0, last data_size
    pub data_start: u64,        // relative to pack start
}

#[derive(Clone, Debug)]
pub struct ContentPackDec {
    pub free_data: Vec<u8>,
    pub clusters: Vec<ClusterDec>,
    pub contents: Vec<(u32, u16)>, // (cluster, blob)
}

#[derive(Clone, Debug)]
pub struct PropDec {
    pub name: String,
    pub kind: PropKind,
    pub offset: usize, // offset in the entry
    pub size: usize,   // bytes in the entry
}

#[derive(Clone, Debug, PartialEq, Eq)]
pub enum PropKind {
    Padding,
    Content { pack_id_size: usize, content_id_size: usize, default_pack: Option<u16> },
    UInt { size: usize, default: Option<u64> },
    SInt { size: usize, default: Option<i64> },
    Array { len_size: usize, fixed: usize, key_size: usize, store: Option<u8> },
    VariantId,
}

#[derive(Clone, Debug)]
pub struct EntryStoreDec {
    pub entry_count: u32,
    pub entry_size: usize,
    pub common: Vec<PropDec>,
    pub variant_id_offset: Option<usize>,
    pub variants: Vec<(String, Vec<PropDec>)>,
    /// raw entry bytes (relative to pack: data_start)
    pub data_start: u64,
}

#[derive(Clone, Debug)]
pub enum ValueStoreDec {
    Plain { data_start: u64, size: u64 },
    Indexed { data_start: u64, offsets: Vec<u64> }, // count+1 entries
}

#[derive(Clone, Debug)]
pub struct IndexDec {
    pub name: String,
    pub store: u32,
    pub count: u32,
    pub offset: u32,
    pub key: u8,
    pub free_data: [u8; 4],
}

#[derive(Clone, Debug)]
pub struct DirectoryPackDec {
    pub free_data: Vec<u8>,
    pub indexes: Vec<IndexDec>,
    pub entry_stores: Vec<EntryStoreDec>,
    pub value_stores: Vec<ValueStoreDec>,
}

#[derive(Clone, Debug, PartialEq, Eq)]
pub struct PackInfoDec {
    pub uuid: [u8; 16],
    pub pack_size: u64,
    pub check_info: (u64, u64), // offset, size (outer size of the copied check block)
    pub pack_id: u16,
    pub pack_kind: u8,
    pub pack_group: u8,
    pub free_data_id: u16,
    pub location: Vec<u8>,
    /// offset of the 252+4 byte block relative to the manifest pack start
    pub block_off: u64,
}

#[derive(Clone, Debug)]
pub struct ManifestDec {
    pub free_data: Vec<u8>,
    pub pack_infos: Vec<PackInfoDec>,
}

#[derive(Clone, Debug)]
pub enum PackBody {
    Content(ContentPackDec),
    Directory(DirectoryPackDec),
    Manifest(ManifestDec),
}

#[derive(Clone, Debug)]
pub struct PackDec {
    pub header: PackHeader,
    /// absolute offset of the pack in the file
    pub start: u64,
    pub body: PackBody,
    /// blake3 stored in the check block
    pub check_hash: [u8; 32],
}

#[derive(Clone, Debug)]
pub struct ContainerDec {
    pub header: PackHeader,
    pub start: u64,
    pub locators: Vec<([u8; 16], u64, u64)>, // uuid, size, offset (relative to the container start)
    /// bytes the container really occupies (header .. tail), may differ from header.size (F9)
    pub real_size: u64,
    /// the 24 application bytes of the container header
    pub free_data: Vec<u8>,
}

#[derive(Clone, Debug)]
pub struct FileDec {
    pub container: Option<ContainerDec>,
    pub packs: Vec<PackDec>,
    pub regions: Vec<Region>,
    pub notes: Vec<String>,
    /// every CRC-protected block: (absolute offset of the data, data length); the CRC follows
    pub blocks: Vec<(u64, u64)>,
}

// ---------------------------------------------------------------------------------------
// decoding

struct Ctx<'a> {
    data: &'a [u8],
    regions: Vec<Region>,
    notes: Vec<String>,
}

impl Ctx<'_> {
    fn region(&mut self, pack: usize, start: u64, end: u64, kind: &str) {
        if end > start {
            self.regions.push(Region {
                start,
                end,
                kind: kind.to_string(),
                pack,
            });
        }
    }
}

/// Decode a whole file: a container pack, a single pack, or either of them behind a prefix
/// (found through the mirrored tail).
pub fn decode_file(data: &[u8]) -> R<FileDec> {
    decode_file_opts(data, true)
}

pub fn decode_file_opts(data: &[u8], strict_container_size: bool) -> R<FileDec> {
    FILE_BASE.with(|b| b.set(Some((data.as_ptr() as usize, data.len()))));
    BLOCKS.with(|b| b.borrow_mut().clear());
    let r = decode_file_inner(data, strict_container_size);
    FILE_BASE.with(|b| b.set(None));
    let mut blocks = BLOCKS.with(|b| std::mem::take(&mut *b.borrow_mut()));
    blocks.sort();
    blocks.dedup();
    r.map(|mut fd| {
        fd.blocks = blocks;
        fd
    })
}

fn decode_file_inner(data: &[u8], strict_container_size: bool) -> R<FileDec> {
    let mut cx = Ctx {
        data,
        regions: vec![],
        notes: vec![],
    };
    // head, else tail
    let (hdr, start) = match pack_header(data, 0) {
        Ok(h) => (h, 0u64),
        Err(head_err) => {
            check!(data.len() >= 64, "file shorter than a pack tail and no header: {head_err}");
            let mut tail: Vec<u8> = data[data.len() - 64..].to_vec();
            tail.reverse();
            let h = pack_header(&tail, 0).map_err(|e| format!("no pack header at 0 ({head_err}) nor mirrored at the end ({e})"))?;
            // the tail tells the size; a container's declared size may be short (F9): try both
            let len = data.len() as u64;
            let mut start = None;
            for cand in [h.size, h.size + 5] {
                if cand <= len {
                    if let Ok(h2) = pack_header(data, len - cand) {
                        if h2 == h {
                            start = Some(len - cand);
                            if cand != h.size {
                                cx.notes.push(format!("tail-located pack starts {} bytes before its declared size says", cand - h.size));
                            }
                            break;
                        }
                    }
                }
            }
            let start = start.ok_or("mirrored tail found but no matching header at len - size")?;
            (h, start)
        }
    };
    let mut packs = vec![];
    let container = if hdr.kind == b'C' {
        let c = decode_container(&mut cx, &hdr, start, strict_container_size)?;
        for (i, (uuid, size, off)) in c.locators.iter().enumerate() {
            let abs = start + off;
            let p = decode_pack(&mut cx, abs, i)?;
            check!(&p.header.uuid == uuid, "locator {i}: uuid differs from the located pack's header");
            check!(p.header.size == *size, "locator {i}: size {} differs from the located pack's header size {}", size, p.header.size);
            packs.push(p);
        }
        Some(c)
    } else {
        let p = decode_pack(&mut cx, start, 0)?;
        check!(
            start + p.header.size == data.len() as u64,
            "single pack: declared size {} does not reach the end of the file ({} bytes after start)",
            p.header.size,
            data.len() as u64 - start
        );
        packs.push(p);
        None
    };
    if start > 0 {
        cx.region(usize::MAX, 0, start, "prefix");
    }
    Ok(FileDec {
        container,
        packs,
        regions: cx.regions,
        notes: cx.notes,
        blocks: vec![],
    })
}

fn decode_container(cx: &mut Ctx, hdr: &PackHeader, start: u64, strict_size: bool) -> R<ContainerDec> {
    let data = cx.data;
    let h = block(data, start + 64, 60, "container header")?;
    let locators_pos = le(&h[0..8]);
    let count = le(&h[8..10]) as usize;
    check!(h[10..36].iter().all(|b| *b == 0), "container header: reserved bytes must be 0");
    let mut locators = vec![];
    for i in 0..count {
        // 32 bytes + CRC (container.rst adds 4 reserved bytes that are not written)
        let l = block(data, start + locators_pos + (i as u64) * 36, 32, "pack locator")?;
        let uuid: [u8; 16] = l[0..16].try_into().unwrap();
        let size = le(&l[16..24]);
        let off = le(&l[24..32]);
        locators.push((uuid, size, off));
    }
    let check_pos = hdr.check_pos;
    check!(
        check_pos == locators_pos + 36 * count as u64,
        "container: check info position {check_pos} is not right after the {count} locators at {locators_pos}"
    );
    // check block: kind 0 (none) + crc
    let cb = block(data, start + check_pos, 1, "container check block")?;
    check!(cb[0] == 0, "container check kind must be 0 (none)");
    let tail_start = start + check_pos + 5;
    let tail = slice(data, tail_start, 64, "container tail")?;
    let mut rev = tail.to_vec();
    rev.reverse();
    check!(rev == data[start as usize..start as usize + 64], "container tail is not the byte-reversed header");
    let real_size = tail_start + 64 - start;
    check!(
        start + real_size == data.len() as u64,
        "container: {} bytes follow the container tail",
        data.len() as u64 - start - real_size
    );
    if strict_size {
        check!(
            hdr.size == real_size,
            "container: declared packSize {} != bytes occupied {} (checkInfoPos + check block + 64)",
            hdr.size,
            real_size
        );
    } else if hdr.size != real_size {
        cx.notes.push(format!("container declares {} bytes, occupies {}", hdr.size, real_size));
    }
    cx.region(usize::MAX, start, start + 64, "container/header");
    cx.region(usize::MAX, start + 64, start + 128, "container/cheader");
    cx.region(usize::MAX, start + locators_pos, start + check_pos, "container/locators");
    cx.region(usize::MAX, start + check_pos, tail_start, "container/checkblock");
    cx.region(usize::MAX, tail_start, tail_start + 64, "container/tail");
    Ok(ContainerDec {
        header: hdr.clone(),
        start,
        locators,
        real_size,
        free_data: h[36..60].to_vec(),
    })
}

fn decode_pack(cx: &mut Ctx, start: u64, idx: usize) -> R<PackDec> {
    let data = cx.data;
    let hdr = pack_header(data, start)?;
    check!(start + hdr.size <= data.len() as u64, "pack at {start}: declared size {} exceeds the file", hdr.size);
    let pdata = &data[start as usize..(start + hdr.size) as usize];
    // tail mirror
    let mut rev = pdata[pdata.len() - 64..].to_vec();
    rev.reverse();
    check!(rev == pdata[..64], "pack at {start}: tail is not the byte-reversed header");
    // check block: blake3
    check!(
        hdr.check_pos + 37 + 64 == hdr.size,
        "pack at {start}: checkInfoPos {} + check block 37 + tail 64 != packSize {}",
        hdr.check_pos,
        hdr.size
    );
    let cb = block(pdata, hdr.check_pos, 33, "check block")?;
    check!(cb[0] == 1, "pack at {start}: check kind {} (expected 1 = blake3)", cb[0]);
    let check_hash: [u8; 32] = cb[1..33].try_into().unwrap();
    let kname = match hdr.kind {
        b'c' => "content",
        b'd' => "directory",
        b'm' => "manifest",
        _ => bail!("pack at {start}: nested container packs are not expected"),
    };
    cx.region(idx, start, start + 64, &format!("{kname}/header"));
    cx.region(idx, start + 64, start + 128, &format!("{kname}/kheader"));
    cx.region(idx, start + hdr.check_pos, start + hdr.check_pos + 37, &format!("{kname}/checkblock"));
    cx.region(idx, start + hdr.size - 64, start + hdr.size, &format!("{kname}/tail"));
    let body = match hdr.kind {
        b'c' => PackBody::Content(decode_content_pack(cx, pdata, &hdr, start, idx)?),
        b'd' => PackBody::Directory(decode_directory_pack(cx, pdata, &hdr, start, idx)?),
        _ => PackBody::Manifest(decode_manifest_pack(cx, pdata, &hdr, start, idx)?),
    };
    // blake3 over [0, check_pos), manifest with location+crc masked
    let mut hasher = blake3::Hasher::new();
    match &body {
        PackBody::Manifest(m) => {
            let mut copy = pdata[..hdr.check_pos as usize].to_vec();
            for pi in &m.pack_infos {
                let b = pi.block_off as usize;
                for x in &mut copy[b + 38..b + 256] {
                    *x = 0;
                }
            }
            hasher.update(&copy);
        }
        _ => {
            hasher.update(&pdata[..hdr.check_pos as usize]);
        }
    }
    let computed = hasher.finalize();
    check!(
        computed.as_bytes() == &check_hash,
        "pack at {start} ({kname}): stored blake3 differs from the hash of the checked range"
    );
    Ok(PackDec {
        header: hdr,
        start,
        body,
        check_hash,
    })
}

fn decode_content_pack(cx: &mut Ctx, p: &[u8], hdr: &PackHeader, start: u64, idx: usize) -> R<ContentPackDec> {
    let h = block(p, 64, 60, "content pack header")?;
    let content_ptr_pos = le(&h[0..8]);
    let cluster_ptr_pos = le(&h[8..16]);
    let content_count = le(&h[16..20]);
    let cluster_count = le(&h[20..24]);
    check!(h[24..36].iter().all(|b| *b == 0), "content pack header: reserved bytes must be 0");
    let free_data = h[36..60].to_vec();
    check!(cluster_count < (1 << 20) + 1, "cluster count exceeds 2^20");
    let ptrs = block(p, cluster_ptr_pos, cluster_count * 8, "cluster pointer table")?;
    let infos = block(p, content_ptr_pos, content_count * 4, "content info table")?;
    cx.region(idx, start + cluster_ptr_pos, start + cluster_ptr_pos + cluster_count * 8 + 4, "content/clusterptrs");
    cx.region(idx, start + content_ptr_pos, start + content_ptr_pos + content_count * 4 + 4, "content/contentinfos");
    check!(
        content_ptr_pos + content_count * 4 + 4 == hdr.check_pos,
        "content pack: content info table does not end at checkInfoPos"
    );
    let mut clusters = vec![];
    let mut spans: Vec<(u64, u64)> = vec![];
    for k in 0..cluster_count as usize {
        let (toff, tsize) = sized_offset(le(&ptrs[k * 8..k * 8 + 8]));
        let t = block(p, toff, tsize, "cluster tail")?;
        check!(t.len() >= 4, "cluster {k}: tail too short");
        let comp = t[0];
        check!(comp <= 3, "cluster {k}: reserved high bits / unknown compression {comp}");
        let osz = t[1] as usize;
        check!((1..=8).contains(&osz), "cluster {k}: offset size {osz}");
        let blob_count = le(&t[2..4]) as usize;
        check!(blob_count >= 1 && blob_count <= 4095, "cluster {k}: blob count {blob_count}");
        check!(
            t.len() == 4 + osz * (blob_count + 1),
            "cluster {k}: tail size {} != 4 + {osz}*({blob_count}+1)",
            t.len()
        );
        let rd = |i: usize| le(&t[4 + i * osz..4 + (i + 1) * osz]);
        let raw_size = rd(0);
        let data_size = rd(1);
        let mut blob_offsets = vec![0u64];
        for j in 0..blob_count - 1 {
            blob_offsets.push(rd(2 + j));
        }
        blob_offsets.push(data_size);
        check!(
            blob_offsets.windows(2).all(|w| w[0] <= w[1]),
            "cluster {k}: blob offsets are not non-decreasing / exceed data size"
        );
        check!(raw_size <= toff, "cluster {k}: raw data would start before the pack");
        let data_start = toff - raw_size;
        check!(data_start >= 128, "cluster {k}: raw data overlaps the headers");
        if comp == 0 {
            check!(raw_size == data_size, "cluster {k}: uncompressed but raw size {raw_size} != data size {data_size}");
        }
        // the smallest width that holds both sizes
        let need = |v: u64| -> usize { (1..=8).find(|n| *n == 8 || v < (1u64 << (8 * n))).unwrap() };
        check!(
            osz >= need(raw_size.max(data_size)),
            "cluster {k}: offset size {osz} cannot hold raw size {raw_size} / data size {data_size}"
        );
        spans.push((data_start, toff + tsize + 4));
        cx.region(idx, start + data_start, start + toff, if comp == 0 { "content/rawcluster" } else { "content/compcluster" });
        cx.region(idx, start + toff, start + toff + tsize + 4, "content/clustertail");
        clusters.push(ClusterDec {
            tail_off: toff,
            tail_size: tsize,
            comp,
            offset_size: osz as u8,
            raw_size,
            data_size,
            blob_offsets,
            data_start,
        });
    }
    // clusters inside the pack, not overlapping, before the pointer table
    spans.sort();
    for w in spans.windows(2) {
        check!(w[0].1 <= w[1].0, "clusters overlap: {:?} and {:?}", w[0], w[1]);
    }
    if let Some(last) = spans.last() {
        check!(last.1 <= cluster_ptr_pos, "a cluster extends into the cluster pointer table");
    }
    let mut contents = vec![];
    for k in 0..content_count as usize {
        let v = le(&infos[k * 4..k * 4 + 4]) as u32;
        let (cl, blob) = (v >> 12, (v & 0xFFF) as u16);
        check!((cl as u64) < cluster_count, "content {k}: cluster {cl} out of range");
        check!(
            (blob as usize) < clusters[cl as usize].blob_offsets.len() - 1,
            "content {k}: blob {blob} out of range for cluster {cl}"
        );
        contents.push((cl, blob));
    }
    Ok(ContentPackDec {
        free_data,
        clusters,
        contents,
    })
}

/// Decompressed data of a cluster, using the algorithm's own library.
pub fn cluster_data(pack_bytes: &[u8], c: &ClusterDec) -> R<Vec<u8>> {
    let raw = slice(pack_bytes, c.data_start, c.raw_size, "cluster raw data")?;
    let mut out = Vec::with_capacity(c.data_size as usize);
    match c.comp {
        0 => out.extend_from_slice(raw),
        1 => {
            lz4::Decoder::new(raw)
                .map_err(|e| format!("lz4 frame: {e}"))?
                .read_to_end(&mut out)
                .map_err(|e| format!("lz4 decode: {e}"))?;
        }
        2 => {
            let stream = xz2::stream::Stream::new_lzma_decoder(u64::MAX).map_err(|e| format!("lzma: {e}"))?;
            xz2::read::XzDecoder::new_stream(raw, stream)
                .read_to_end(&mut out)
                .map_err(|e| format!("lzma decode: {e}"))?;
        }
        3 => {
            zstd::stream::read::Decoder::new(raw)
                .map_err(|e| format!("zstd frame: {e}"))?
                .read_to_end(&mut out)
                .map_err(|e| format!("zstd decode: {e}"))?;
        }
        x => bail!("unknown compression {x}"),
    }
    check!(
        out.len() as u64 >= c.data_size,
        "cluster payload decodes to {} bytes, tail says {}",
        out.len(),
        c.data_size
    );
    check!(
        out.len() as u64 == c.data_size,
        "cluster payload decodes to {} bytes, more than the {} the tail declares",
        out.len(),
        c.data_size
    );
    Ok(out)
}

/// All contents of a content pack, decoded independently.
pub fn content_pack_contents(pack_bytes: &[u8], cp: &ContentPackDec) -> R<Vec<Vec<u8>>> {
    let mut cache: BTreeMap<u32, Vec<u8>> = BTreeMap::new();
    let mut out = Vec::with_capacity(cp.contents.len());
    for (cl, blob) in &cp.contents {
        if !cache.contains_key(cl) {
            cache.insert(*cl, cluster_data(pack_bytes, &cp.clusters[*cl as usize])?);
        }
        let c = &cp.clusters[*cl as usize];
        let d = &cache[cl];
        let (a, b) = (c.blob_offsets[*blob as usize] as usize, c.blob_offsets[*blob as usize + 1] as usize);
        out.push(d[a..b].to_vec());
    }
    Ok(out)
}

fn decode_props(t: &[u8], pos: &mut usize, key_count: usize) -> R<Vec<(String, PropKind, usize)>> {
    let mut out = vec![];
    for _ in 0..key_count {
        check!(*pos < t.len(), "layout: key info out of tail");
        let info = t[*pos];
        *pos += 1;
        let (ty, d) = (info >> 4, info & 0x0F);
        let take = |pos: &mut usize, n: usize| -> R<&[u8]> {
            check!(*pos + n <= t.len(), "layout: complement bytes out of tail");
            let s = &t[*pos..*pos + n];
            *pos += n;
            Ok(s)
        };
        let (kind, size, named) = match ty {
            0b0000 => (PropKind::Padding, d as usize + 1, false),
            0b0001 => {
                let pack_id_size = ((d & 0b0100) >> 2) as usize + 1;
                let content_id_size = (d & 0b0011) as usize + 1;
                let default_pack = if d & 0b1000 != 0 {
                    Some(le(take(pos, pack_id_size)?) as u16)
                } else {
                    None
                };
                let size = content_id_size + if default_pack.is_some() { 0 } else { pack_id_size };
                (PropKind::Content { pack_id_size, content_id_size, default_pack }, size, true)
            }
            0b0010 => {
                let n = (d & 7) as usize + 1;
                if d & 8 != 0 {
                    let v = le(take(pos, n)?);
                    (PropKind::UInt { size: n, default: Some(v) }, 0, true)
                } else {
                    (PropKind::UInt { size: n, default: None }, n, true)
                }
            }
            0b0011 => {
                let n = (d & 7) as usize + 1;
                if d & 8 != 0 {
                    let v = le_signed(take(pos, n)?);
                    (PropKind::SInt { size: n, default: Some(v) }, 0, true)
                } else {
                    (PropKind::SInt { size: n, default: None }, n, true)
                }
            }
            0b0101 => {
                check!(d & 0b1000 == 0, "layout: array defaults are never written by the creator");
                check!(d & 0b0100 == 0, "layout: array key type bit 2 must be 0");
                let len_size = (d & 3) as usize;
                let c = take(pos, 1)?[0];
                let fixed = (c & 0x1F) as usize;
                let key_size = (c >> 5) as usize;
                let store = if key_size != 0 { Some(take(pos, 1)?[0]) } else { None };
                (PropKind::Array { len_size, fixed, key_size, store }, len_size + fixed + key_size, true)
            }
            0b1000 => {
                check!(d == 0, "layout: variant id key type low bits must be 0");
                (PropKind::VariantId, 1, true)
            }
            0b1010 | 0b1011 => bail!("layout: deported integers are never written by the creator"),
            x => bail!("layout: unknown key type {x:#06b}"),
        };
        let name = if named {
            String::from_utf8(pstring(t, pos, "key name")?.to_vec()).map_err(|_| "key name is not utf8".to_string())?
        } else {
            String::new()
        };
        out.push((name, kind, size));
    }
    Ok(out)
}

fn decode_entry_store(cx: &mut Ctx, p: &[u8], toff: u64, tsize: u64, start: u64, idx: usize) -> R<EntryStoreDec> {
    let t = block(p, toff, tsize, "entry store tail")?;
    check!(t.len() >= 10, "entry store tail too short");
    check!(t[0] == 0, "entry store kind {} (only plain = 0 exists)", t[0]);
    let entry_count = le(&t[1..5]) as u32;
    let flag = t[5];
    check!(flag == 0, "entry store flag {flag} (per-entry checks are not written)");
    let entry_size = le(&t[6..8]) as usize;
    let variant_count = t[8] as usize;
    let key_count = t[9] as usize;
    let mut pos = 10;
    let raw = decode_props(t, &mut pos, key_count)?;
    check!(pos == t.len(), "entry store tail: {} bytes left after the {key_count} key infos", t.len() - pos);
    // split common / variants
    let mut common = vec![];
    let mut off = 0usize;
    let mut it = raw.into_iter().peekable();
    while let Some((_, k, _)) = it.peek() {
        if *k == PropKind::VariantId {
            break;
        }
        let (name, kind, size) = it.next().unwrap();
        common.push(PropDec { name, kind, offset: off, size });
        off += size;
    }
    let mut variants: Vec<(String, Vec<PropDec>)> = vec![];
    let mut variant_id_offset = None;
    if variant_count > 0 {
        variant_id_offset = Some(off);
        let vstart = off + 1;
        let mut voff = vstart;
        for (name, kind, size) in it {
            if kind == PropKind::VariantId {
                if let Some((vn, _)) = variants.last() {
                    check!(voff == entry_size, "variant {vn}: size {} != entry size {entry_size}", voff);
                }
                variants.push((name, vec![]));
                voff = vstart;
                continue;
            }
            let Some(last) = variants.last_mut() else {
                bail!("layout: a variant definition must start with a variant id");
            };
            last.1.push(PropDec { name, kind, offset: voff, size });
            voff += size;
        }
        if let Some((vn, _)) = variants.last() {
            check!(voff == entry_size, "variant {vn}: size {} != entry size {entry_size}", voff);
        }
        check!(variants.len() == variant_count, "layout declares {variant_count} variants, defines {}", variants.len());
    } else {
        check!(it.next().is_none(), "layout: variant id without variant count");
        check!(off == entry_size, "layout: common size {off} != entry size {entry_size}");
    }
    let dsize = entry_count as u64 * entry_size as u64;
    check!(dsize + 4 <= toff, "entry store data would start before the pack");
    let data_start = toff - dsize - 4;
    block(p, data_start, dsize, "entry store data")?;
    cx.region(idx, start + data_start, start + toff, "directory/entries");
    cx.region(idx, start + toff, start + toff + tsize + 4, "directory/entrystoretail");
    Ok(EntryStoreDec {
        entry_count,
        entry_size,
        common,
        variant_id_offset,
        variants,
        data_start,
    })
}

fn decode_value_store(cx: &mut Ctx, p: &[u8], toff: u64, tsize: u64, start: u64, idx: usize, what: &str) -> R<ValueStoreDec> {
    let t = block(p, toff, tsize, "value store tail")?;
    check!(!t.is_empty(), "value store tail empty");
    let vs = match t[0] {
        0 => {
            check!(t.len() == 9, "plain value store tail is {} bytes, expected 9", t.len());
            let size = le(&t[1..9]);
            check!(size + 4 <= toff, "plain store data would start before the pack");
            let data_start = toff - size - 4;
            block(p, data_start, size, "plain value store data")?;
            ValueStoreDec::Plain { data_start, size }
        }
        1 => {
            // count is written as u64 (directory.rst says u32)
            check!(t.len() >= 10, "indexed value store tail too short");
            let count = le(&t[1..9]);
            let osz = t[9] as usize;
            check!((1..=8).contains(&osz), "indexed value store: offset size {osz}");
            let expected = 10 + osz as u64 * count.max(1);
            check!(
                t.len() as u64 == expected,
                "indexed value store tail is {} bytes, expected {expected} for {count} values",
                t.len()
            );
            let data_size = le(&t[10..10 + osz]);
            let mut offsets = vec![0u64];
            for j in 1..count as usize {
                offsets.push(le(&t[10 + j * osz..10 + (j + 1) * osz]));
            }
            if count > 0 {
                offsets.push(data_size);
            } else {
                check!(data_size == 0, "empty indexed store with data");
            }
            check!(offsets.windows(2).all(|w| w[0] <= w[1]), "indexed value store offsets not monotone");
            check!(data_size + 4 <= toff, "indexed store data would start before the pack");
            let data_start = toff - data_size - 4;
            block(p, data_start, data_size, "indexed value store data")?;
            ValueStoreDec::Indexed { data_start, offsets }
        }
        k => bail!("value store kind {k}"),
    };
    let ds = match &vs {
        ValueStoreDec::Plain { data_start, .. } | ValueStoreDec::Indexed { data_start, .. } => *data_start,
    };
    cx.region(idx, start + ds, start + toff, &format!("{what}/valuedata"));
    cx.region(idx, start + toff, start + toff + tsize + 4, &format!("{what}/valuestoretail"));
    Ok(vs)
}

fn decode_directory_pack(cx: &mut Ctx, p: &[u8], hdr: &PackHeader, start: u64, idx: usize) -> R<DirectoryPackDec> {
    let h = block(p, 64, 60, "directory pack header")?;
    let index_ptr = le(&h[0..8]);
    let entry_ptr = le(&h[8..16]);
    let value_ptr = le(&h[16..24]);
    let index_count = le(&h[24..28]);
    let entry_count = le(&h[28..32]);
    let value_count = le(&h[32..33]);
    check!(h[33..36].iter().all(|b| *b == 0), "directory pack header: reserved bytes must be 0");
    let free_data = h[36..60].to_vec();
    let ips = block(p, index_ptr, index_count * 8, "index pointer table")?;
    let eps = block(p, entry_ptr, entry_count * 8, "entry store pointer table")?;
    let vps = block(p, value_ptr, value_count * 8, "value store pointer table")?;
    cx.region(idx, start + index_ptr, start + index_ptr + index_count * 8 + 4, "directory/indexptrs");
    cx.region(idx, start + entry_ptr, start + entry_ptr + entry_count * 8 + 4, "directory/entryptrs");
    cx.region(idx, start + value_ptr, start + value_ptr + value_count * 8 + 4, "directory/valueptrs");
    let last_table_end = [
        index_ptr + index_count * 8 + 4,
        entry_ptr + entry_count * 8 + 4,
        value_ptr + value_count * 8 + 4,
    ]
    .into_iter()
    .max()
    .unwrap();
    check!(last_table_end == hdr.check_pos, "directory pack: pointer tables do not end at checkInfoPos");
    let mut indexes = vec![];
    for k in 0..index_count as usize {
        let (o, s) = sized_offset(le(&ips[k * 8..k * 8 + 8]));
        let t = block(p, o, s, "index header")?;
        check!(t.len() >= 18, "index header too short");
        let mut pos = 17;
        let name = pstring(t, &mut pos, "index name")?;
        check!(pos == t.len(), "index header: trailing bytes");
        cx.region(idx, start + o, start + o + s + 4, "directory/index");
        indexes.push(IndexDec {
            store: le(&t[0..4]) as u32,
            count: le(&t[4..8]) as u32,
            offset: le(&t[8..12]) as u32,
            free_data: t[12..16].try_into().unwrap(),
            key: t[16],
            name: String::from_utf8(name.to_vec()).map_err(|_| "index name not utf8".to_string())?,
        });
    }
    let mut entry_stores = vec![];
    for k in 0..entry_count as usize {
        let (o, s) = sized_offset(le(&eps[k * 8..k * 8 + 8]));
        entry_stores.push(decode_entry_store(cx, p, o, s, start, idx)?);
    }
    let mut value_stores = vec![];
    for k in 0..value_count as usize {
        let (o, s) = sized_offset(le(&vps[k * 8..k * 8 + 8]));
        value_stores.push(decode_value_store(cx, p, o, s, start, idx, "directory")?);
    }
    for (i, ix) in indexes.iter().enumerate() {
        check!((ix.store as usize) < entry_stores.len(), "index {i}: store {} out of range", ix.store);
        let n = entry_stores[ix.store as usize].entry_count as u64;
        check!(ix.offset as u64 + ix.count as u64 <= n, "index {i}: window {}+{} exceeds the store's {n} entries", ix.offset, ix.count);
    }
    Ok(DirectoryPackDec {
        free_data,
        indexes,
        entry_stores,
        value_stores,
    })
}

fn decode_manifest_pack(cx: &mut Ctx, p: &[u8], hdr: &PackHeader, start: u64, idx: usize) -> R<ManifestDec> {
    let h = block(p, 64, 60, "manifest pack header")?;
    let pack_count = le(&h[0..2]);
    let (vs_off, vs_size) = sized_offset(le(&h[2..10]));
    check!(h[10..36].iter().all(|b| *b == 0), "manifest pack header: reserved bytes must be 0");
    let free_data = h[36..60].to_vec();
    check!(pack_count * 256 <= hdr.check_pos, "manifest: pack infos would start before the pack");
    let first = hdr.check_pos - pack_count * 256;
    let mut pack_infos = vec![];
    for k in 0..pack_count {
        let off = first + k * 256;
        let b = block(p, off, 252, "pack info")?;
        let (ci_off, ci_size) = sized_offset(le(&b[24..32]));
        let loc_len = b[38] as usize;
        check!(loc_len <= 213, "pack info {k}: location length {loc_len} > 213");
        check!(b[39 + loc_len..252].iter().all(|x| *x == 0), "pack info {k}: location padding is not zero");
        check!(matches!(b[34], b'c' | b'd' | b'm'), "pack info {k}: pack kind {:#x}", b[34]);
        // copied check info: outer size (37 = 1 + 32 + 4)
        check!(ci_size == 37, "pack info {k}: check info size {ci_size}, expected the outer size 37");
        let cb = block(p, ci_off, 33, "copied check info")?;
        check!(cb[0] == 1, "pack info {k}: copied check kind {}", cb[0]);
        cx.region(idx, start + ci_off, start + ci_off + 37, "manifest/copiedcheck");
        cx.region(idx, start + off, start + off + 38, "manifest/packinfo-fixed");
        cx.region(idx, start + off + 38, start + off + 252, "manifest/packinfo-location");
        cx.region(idx, start + off + 252, start + off + 256, "manifest/packinfo-crc");
        pack_infos.push(PackInfoDec {
            uuid: b[0..16].try_into().unwrap(),
            pack_size: le(&b[16..24]),
            check_info: (ci_off, ci_size),
            pack_id: le(&b[32..34]) as u16,
            pack_kind: b[34],
            pack_group: b[35],
            free_data_id: le(&b[36..38]) as u16,
            location: b[39..39 + loc_len].to_vec(),
            block_off: off,
        });
    }
    check!(
        pack_infos.iter().filter(|p| p.pack_kind == b'd').count() == 1,
        "manifest must list exactly one directory pack"
    );
    if vs_off != 0 || vs_size != 0 {
        decode_value_store(cx, p, vs_off, vs_size, start, idx, "manifest")?;
    }
    Ok(ManifestDec { free_data, pack_infos })
}

// ---------------------------------------------------------------------------------------
// entry decoding

impl DirectoryPackDec {
    fn value_store_data<'a>(&self, p: &'a [u8], store: u8, id: u64, size: Option<u64>) -> R<&'a [u8]> {
        let vs = self
            .value_stores
            .get(store as usize)
            .ok_or_else(|| format!("value store {store} does not exist"))?;
        match vs {
            ValueStoreDec::Plain { data_start, size: total } => {
                let n = size.ok_or("plain store needs an explicit size")?;
                check!(id + n <= *total, "plain store: {id}+{n} exceeds {total}");
                slice(p, data_start + id, n, "plain store value")
            }
            ValueStoreDec::Indexed { data_start, offsets } => {
                check!((id as usize) + 1 < offsets.len(), "indexed store: id {id} out of {} values", offsets.len().saturating_sub(1));
                let (a, b) = (offsets[id as usize], offsets[id as usize + 1]);
                let n = match size {
                    Some(n) => {
                        check!(n <= b - a, "indexed store: requested {n} bytes of a {}-byte value", b - a);
                        n
                    }
                    None => b - a,
                };
                slice(p, data_start + a, n, "indexed store value")
            }
        }
    }

    fn decode_prop(&self, p: &[u8], e: &[u8], pd: &PropDec) -> R<Option<DVal>> {
        let b = &e[pd.offset..pd.offset + pd.size];
        Ok(Some(match &pd.kind {
            PropKind::Padding | PropKind::VariantId => return Ok(None),
            PropKind::UInt { default: Some(v), .. } => DVal::U(*v),
            PropKind::UInt { .. } => DVal::U(le(b)),
            PropKind::SInt { default: Some(v), .. } => DVal::S(*v),
            PropKind::SInt { .. } => DVal::S(le_signed(b)),
            PropKind::Content { pack_id_size, default_pack, .. } => match default_pack {
                Some(pk) => DVal::C(*pk, le(b) as u32),
                None => DVal::C(le(&b[..*pack_id_size]) as u16, le(&b[*pack_id_size..]) as u32),
            },
            PropKind::Array { len_size, fixed, key_size, store } => {
                let size = if *len_size > 0 { Some(le(&b[..*len_size])) } else { None };
                let base = &b[*len_size..*len_size + *fixed];
                let base_len = match size {
                    Some(s) => (*fixed as u64).min(s) as usize,
                    None => *fixed,
                };
                let mut v = base[..base_len].to_vec();
                check!(base[base_len..].iter().all(|x| *x == 0), "array {}: fixed part is not zero padded", pd.name);
                if *key_size > 0 {
                    let id = le(&b[*len_size + *fixed..]);
                    let rest = size.map(|s| s - base_len as u64);
                    v.extend_from_slice(self.value_store_data(p, store.unwrap(), id, rest)?);
                }
                DVal::A(v)
            }
        }))
    }

    /// entry `i` of store `s`: (variant id, name -> value)
    pub fn entry(&self, p: &[u8], s: usize, i: u32) -> R<(Option<u8>, BTreeMap<String, DVal>)> {
        let es = &self.entry_stores[s];
        check!(i < es.entry_count, "entry {i} out of {}", es.entry_count);
        let e = slice(p, es.data_start + i as u64 * es.entry_size as u64, es.entry_size as u64, "entry")?;
        let mut vals = BTreeMap::new();
        for pd in &es.common {
            if let Some(v) = self.decode_prop(p, e, pd)? {
                vals.insert(pd.name.clone(), v);
            }
        }
        let mut variant = None;
        if let Some(vo) = es.variant_id_offset {
            let vid = e[vo];
            check!((vid as usize) < es.variants.len(), "entry {i}: variant id {vid} out of {}", es.variants.len());
            variant = Some(vid);
            for pd in &es.variants[vid as usize].1 {
                if let Some(v) = self.decode_prop(p, e, pd)? {
                    vals.insert(pd.name.clone(), v);
                }
            }
        }
        Ok((variant, vals))
    }
}

impl FileDec {
    pub fn pack_bytes<'a>(&self, data: &'a [u8], i: usize) -> &'a [u8] {
        let p = &self.packs[i];
        &data[p.start as usize..(p.start + p.header.size) as usize]
    }
    pub fn find_kind(&self, kind: u8) -> Option<usize> {
        self.packs.iter().position(|p| p.header.kind == kind)
    }
    pub fn find_uuid(&self, uuid: &[u8; 16]) -> Option<usize> {
        self.packs.iter().position(|p| &p.header.uuid == uuid)
    }
}
