//! jbkv — property-based verification harness for jubako (see /verif/DESIGN.md)
#![allow(clippy::type_complexity)]
#![allow(dead_code)]

pub mod container;
pub mod crash;
pub mod dirgen;
pub mod engine;
pub mod faults;
pub mod fdump;
pub mod gen;
pub mod indep;
pub mod indepcheck;
pub mod props;
