//! Fault-tolerant logical dump (DESIGN 2.3/2.4): what a reader returns about a possibly
//! damaged container, access by access: every access is a value or an error.
//! Produced by the reader child (`jbkv-reader`), compared by the fault enumerator.

use crate::dirgen::{open_index, DumpEntry};
use jubako as jbk;
use jbk::reader::Range;
use jbk::reader::EntryTrait;
use serde::{Deserialize, Serialize};
use std::collections::BTreeMap;
use std::io::Read;
use std::path::Path;

#[derive(Serialize, Deserialize, PartialEq, Eq, Debug, Clone)]
pub enum Acc<T> {
    Ok(T),
    Err(String),
}

impl<T> Acc<T> {
    pub fn is_err(&self) -> bool {
        matches!(self, Acc::Err(_))
    }
    pub fn ok(&self) -> Option<&T> {
        match self {
            Acc::Ok(t) => Some(t),
            Acc::Err(_) => None,
        }
    }
}

fn acc<T, E: std::fmt::Display>(r: Result<T, E>) -> Acc<T> {
    match r {
        Ok(t) => Acc::Ok(t),
        Err(e) => Acc::Err(e.to_string().chars().take(200).collect()),
    }
}

#[derive(Serialize, Deserialize, PartialEq, Eq, Debug, Clone)]
pub struct FIndex {
    pub store: u32,
    pub offset: u32,
    pub count: u32,
    pub entries: Vec<Acc<DumpEntry>>,
}

#[derive(Serialize, Deserialize, PartialEq, Eq, Debug, Clone)]
pub enum FContent {
    Bytes { size: u64, hash: String, small_reads_agree: bool },
    Missing,
    NoPack,
    NoContent,
}

/// one pack as the manifest pack describes it (ManifestPack opened on its own)
#[derive(Serialize, Deserialize, PartialEq, Eq, Debug, Clone)]
pub struct FPackInfo {
    pub uuid: String,
    pub id: u16,
    pub kind: String,
    pub size: u64,
    pub group: u8,
    pub location: String,
    /// free data through get_pack_free_data(pack id) and get_pack_free_data_uuid(uuid)
    pub free_by_id: Acc<Option<String>>,
    pub free_by_uuid: Acc<Option<String>>,
}

#[derive(Serialize, Deserialize, PartialEq, Eq, Debug, Clone, Default)]
pub struct FDump {
    /// the pack list read from the manifest pack of the entry-point file, opened directly
    #[serde(default)]
    pub manifest: Option<Acc<Vec<FPackInfo>>>,
    pub open: Option<Acc<()>>,
    pub pack_count: Option<u16>,
    pub packs: BTreeMap<u16, Acc<i64>>,
    pub indexes: BTreeMap<String, Acc<FIndex>>,
    pub contents: BTreeMap<String, Acc<FContent>>,
    pub container_check: Option<Acc<bool>>,
    /// "file|uuid" -> check of that pack
    pub pack_checks: BTreeMap<String, Acc<bool>>,
    /// file -> ContainerPack::check of that file
    pub file_checks: BTreeMap<String, Acc<bool>>,
    /// live phase only: did anything the container serves (entries, contents, counts) change
    #[serde(default)]
    pub live_changed: Option<bool>,
    /// "file|kind" -> what ContentPack::new / DirectoryPack::new / ManifestPack::new say about the
    /// file handed over as a WHOLE-FILE reader (the way the repository's own tests and custom
    /// locators open loose pack files; no cut to the declared pack size happens first):
    /// a structural digest (counts, sizes, locations - never content bytes) or the error
    #[serde(default)]
    pub bare: BTreeMap<String, Acc<String>>,
    /// check() asked of the pack OBJECTS the container hands out ("obj|<pack id>" through
    /// Container::get_pack, "obj|dir" the directory pack): the same objects before and after a live alteration
    #[serde(default)]
    pub object_checks: BTreeMap<String, Acc<bool>>,
    /// live phase: ids of the content packs whose contents are served differently after the
    /// alteration, and whether the directory (indexes, entries) is
    #[serde(default)]
    pub live_detail: Option<(Vec<u16>, bool)>,
}

#[derive(Serialize, Deserialize, Debug, Clone)]
pub struct Job {
    pub dir: String,
    pub main: String,
    pub files: Vec<String>,
    pub index_names: Vec<String>,
    pub addresses: Vec<(u16, u32)>,
    /// read entries and contents (C05/C06) or only run the checks (C04)
    pub full: bool,
    /// after the dump: this many threads read every content of a freshly opened container at the
    /// same time (several readers waiting on one damaged cluster), results are not compared
    #[serde(default)]
    pub concurrent: u8,
    /// C04 live phase: (file, position, xor mask) altered in place between two dumps of ONE container
    #[serde(default)]
    pub live: Option<(String, u64, u8)>,
}

/// the three pack kinds opened directly on a whole-file reader
fn dump_bare(path: &Path, index_names: &[String], out: &mut BTreeMap<String, Acc<String>>, f: &str) {
    let rd: jbk::Reader = match jbk::FileSource::open(path) {
        Ok(s) => s.into(),
        Err(e) => {
            out.insert(format!("{f}|open"), Acc::Err(e.to_string().chars().take(200).collect()));
            return;
        }
    };
    let content = (|| -> jbk::Result<String> {
        let cp = jbk::reader::ContentPack::new(rd.clone())?;
        let n = cp.get_content_count().into_u32();
        let mut d = format!("contents={n}");
        for i in 0..n.min(600) {
            match cp.get_content(jbk::ContentIdx::from(i))? {
                Some(r) => {
                    // stream it (the bytes themselves are judged through the container, not here)
                    let mut v = Vec::new();
                    let m = r.stream().take(64 << 20).read_to_end(&mut v).map_err(jbk::Error::from)?;
                    d.push_str(&format!(" {}:{m}", r.size().into_u64()));
                }
                None => d.push_str(" none"),
            }
        }
        for past in [n, n.saturating_add(1), u32::MAX] {
            d.push_str(if cp.get_content(jbk::ContentIdx::from(past))?.is_some() { " past:some" } else { " past:none" });
        }
        Ok(d)
    })();
    out.insert(format!("{f}|content"), acc(content));
    let directory = (|| -> jbk::Result<String> {
        let dp = std::sync::Arc::new(jbk::reader::DirectoryPack::new(rd.clone())?);
        let estorage = dp.create_entry_storage();
        let vstorage = dp.create_value_storage();
        let mut d = String::from("indexes:");
        for name in index_names {
            match dp.get_index_from_name(name)? {
                None => d.push_str(&format!(" {name}=absent")),
                Some(ix) => {
                    d.push_str(&format!(" {name}=({},{},{})", ix.get_store_id().into_u32(), ix.offset().into_u32(), ix.count().into_u32()));
                    let store = ix.get_store(&estorage)?;
                    let b = jbk::reader::builder::AnyBuilder::new(store, vstorage.as_ref())?;
                    let n = ix.count().into_u32();
                    for i in (0..n).step_by((n as usize / 50).max(1)) {
                        if let Some(e) = ix.get_entry(&b, i.into())? {
                            d.push_str(&format!("[v{:?}]", e.get_variant_id()?.map(|v| v.into_u8())));
                        }
                    }
                }
            }
        }
        Ok(d)
    })();
    out.insert(format!("{f}|directory"), acc(directory));
    let manifest = (|| -> jbk::Result<String> {
        let m = jbk::reader::ManifestPack::new(rd.clone())?;
        let mut d = format!("packs={}", m.pack_count().into_u16());
        let dpi = m.get_directory_pack_info();
        d.push_str(&format!(" d:{}:{}:{}:{:?}", dpi.uuid, dpi.pack_id.into_u16(), dpi.pack_size.into_u64(), dpi.pack_location.as_str()));
        for pi in m.get_pack_infos() {
            d.push_str(&format!(" {}:{}:{}:{:?}", pi.uuid, pi.pack_id.into_u16(), pi.pack_size.into_u64(), pi.pack_location.as_str()));
        }
        Ok(d)
    })();
    out.insert(format!("{f}|manifest"), acc(manifest));
}

fn dump_manifest(main: &Path) -> Acc<Vec<FPackInfo>> {
    let hex = |b: &[u8]| b.iter().map(|x| format!("{x:02x}")).collect::<String>();
    let cp = match jbk::tools::open_pack(main) {
        Ok(c) => c,
        Err(e) => return Acc::Err(e.to_string().chars().take(200).collect()),
    };
    let r = match cp.get_manifest_pack_reader() {
        Ok(Some(r)) => r,
        Ok(None) => return Acc::Err("no manifest pack in the file".into()),
        Err(e) => return Acc::Err(e.to_string().chars().take(200).collect()),
    };
    let m = match jbk::reader::ManifestPack::new(r) {
        Ok(m) => m,
        Err(e) => return Acc::Err(e.to_string().chars().take(200).collect()),
    };
    let mut out = vec![];
    let mut infos: Vec<&jbk::reader::PackInfo> = vec![m.get_directory_pack_info()];
    infos.extend(m.get_pack_infos().iter());
    for pi in infos {
        out.push(FPackInfo {
            uuid: pi.uuid.to_string(),
            id: pi.pack_id.into_u16(),
            kind: format!("{:?}", pi.pack_kind),
            size: pi.pack_size.into_u64(),
            group: pi.pack_group,
            location: pi.pack_location.as_str().to_string(),
            free_by_id: acc(m.get_pack_free_data(pi.pack_id).map(|o| o.map(hex))),
            free_by_uuid: acc(m.get_pack_free_data_uuid(pi.uuid).map(|o| o.map(hex))),
        });
    }
    Acc::Ok(out)
}

fn check_pack_reader(r: &jbk::Reader) -> Result<bool, String> {
    use jbk::Pack;
    let mut errs = vec![];
    match jbk::reader::ManifestPack::new(r.clone()) {
        Ok(p) => return p.check().map_err(|e| e.to_string()),
        Err(e) => errs.push(e.to_string()),
    }
    match jbk::reader::DirectoryPack::new(r.clone()) {
        Ok(p) => return p.check().map_err(|e| e.to_string()),
        Err(e) => errs.push(e.to_string()),
    }
    match jbk::reader::ContentPack::new(r.clone()) {
        Ok(p) => return p.check().map_err(|e| e.to_string()),
        Err(e) => errs.push(e.to_string()),
    }
    Err(errs.join(" / ").chars().take(200).collect())
}

/// everything the dump takes from an opened container (also used twice on ONE container by the
/// live-alteration phase of C04)
pub fn fill_from_container(c: &jbk::reader::Container, job: &Job, d: &mut FDump) {
    d.container_check = Some(acc(c.check()));
    d.pack_count = Some(c.pack_count().into_u16());
    if !job.full {
        return;
    }
    for name in &job.index_names {
        // "there is no index of that name" is an answer about structure, not an error
        if let Ok(None) = c.get_directory_pack().get_index_from_name(name) {
            d.indexes.insert(name.clone(), Acc::Ok(FIndex { store: u32::MAX, offset: 0, count: 0, entries: vec![] }));
            continue;
        }
        let oi = match open_index(c.get_directory_pack(), &|ix| ix.get_store(c.get_entry_storage()), c.get_value_storage(), name) {
            Ok(o) => o,
            Err(e) => {
                d.indexes.insert(name.clone(), Acc::Err(e));
                continue;
            }
        };
        let count = oi.count();
        let mut entries = Vec::with_capacity(count.min(100_000));
        // a damaged count may be huge: cap the walk, the count itself is compared
        for i in 0..count.min(100_000) {
            entries.push(match oi.entry(i as u32) {
                Ok(Some(e)) => Acc::Ok(e),
                Ok(None) => Acc::Err("entry is None".into()),
                Err(e) => Acc::Err(e),
            });
        }
        d.indexes.insert(
            name.clone(),
            Acc::Ok(FIndex { store: oi.index.get_store_id().into_u32(), offset: oi.index.offset().into_u32(), count: count as u32, entries }),
        );
    }
    let mut pack_ids: Vec<u16> = job.addresses.iter().map(|a| a.0).collect();
    pack_ids.sort();
    pack_ids.dedup();
    for id in pack_ids {
        let v = match c.get_pack(id.into()) {
            Err(e) => Acc::Err(e.to_string().chars().take(200).collect()),
            Ok(None) => Acc::Ok(-2),
            Ok(Some(jbk::reader::MayMissPack::MISSING(_))) => Acc::Ok(-1),
            Ok(Some(jbk::reader::MayMissPack::FOUND(p))) => Acc::Ok(p.get_content_count().into_u32() as i64),
        };
        d.packs.insert(id, v);
        if let Ok(Some(jbk::reader::MayMissPack::FOUND(p))) = c.get_pack(id.into()) {
            d.object_checks.insert(format!("obj|{id}"), acc(jbk::Pack::check(&*p)));
        }
    }
    d.object_checks.insert("obj|dir".into(), acc(jbk::Pack::check(&**c.get_directory_pack())));
    for (p, cid) in &job.addresses {
        let key = format!("{p}:{cid}");
        let v = match c.get_bytes(jbk::ContentAddress::new((*p).into(), (*cid).into())) {
            Err(e) => Acc::Err(e.to_string().chars().take(200).collect()),
            Ok(None) => Acc::Ok(FContent::NoPack),
            Ok(Some(jbk::reader::MayMissPack::MISSING(_))) => Acc::Ok(FContent::Missing),
            Ok(Some(jbk::reader::MayMissPack::FOUND(None))) => Acc::Ok(FContent::NoContent),
            Ok(Some(jbk::reader::MayMissPack::FOUND(Some(r)))) => {
                let size = r.size().into_u64();
                let mut v = Vec::new();
                match r.stream().take(64 << 20).read_to_end(&mut v) {
                    Err(e) => Acc::Err(format!("read: {e}").chars().take(200).collect()),
                    Ok(_) => {
                        // the same content through small reads
                        let mut s = r.stream();
                        let mut v2 = Vec::with_capacity(v.len());
                        let mut buf = [0u8; 7];
                        let mut small_err = None;
                        loop {
                            match s.read(&mut buf) {
                                Ok(0) => break,
                                Ok(n) => v2.extend_from_slice(&buf[..n]),
                                Err(e) => {
                                    small_err = Some(e.to_string());
                                    break;
                                }
                            }
                            if v2.len() > 64 << 20 {
                                break;
                            }
                        }
                        match small_err {
                            Some(e) => Acc::Err(format!("small reads: {e}").chars().take(200).collect()),
                            None => Acc::Ok(FContent::Bytes { size, hash: blake3::hash(&v).to_hex().to_string(), small_reads_agree: v == v2 }),
                        }
                    }
                }
            }
        };
        d.contents.insert(key, v);
    }
}

/// C04, live phase: ONE opened container is dumped, a byte of one of its files is altered in place,
/// and the same container object is dumped and checked again. Returns (before, after).
pub fn run_live(job: &Job, file: &str, pos: u64, mask: u8) -> Result<(FDump, FDump), String> {
    use std::io::{Read as _, Seek, SeekFrom, Write};
    let dir = Path::new(&job.dir);
    let c = jbk::reader::Container::new(dir.join(&job.main)).map_err(|e| format!("open: {e}"))?;
    let mut d0 = FDump::default();
    fill_from_container(&c, job, &mut d0);
    let mut f = std::fs::OpenOptions::new().read(true).write(true).open(dir.join(file)).map_err(|e| e.to_string())?;
    let mut b = [0u8; 1];
    f.seek(SeekFrom::Start(pos)).map_err(|e| e.to_string())?;
    f.read_exact(&mut b).map_err(|e| e.to_string())?;
    let orig = b[0];
    b[0] ^= mask;
    f.seek(SeekFrom::Start(pos)).map_err(|e| e.to_string())?;
    f.write_all(&b).map_err(|e| e.to_string())?;
    f.flush().map_err(|e| e.to_string())?;
    let mut d1 = FDump::default();
    fill_from_container(&c, job, &mut d1);
    f.seek(SeekFrom::Start(pos)).map_err(|e| e.to_string())?;
    f.write_all(&[orig]).map_err(|e| e.to_string())?;
    Ok((d0, d1))
}

pub fn run_job(job: &Job) -> FDump {
    let dir = Path::new(&job.dir);
    let mut d = FDump::default();
    if let Some((file, pos, mask)) = &job.live {
        match run_live(job, file, *pos, *mask) {
            Ok((d0, mut d1)) => {
                d1.open = Some(Acc::Ok(()));
                d1.live_changed = Some(d0.indexes != d1.indexes || d0.contents != d1.contents || d0.packs != d1.packs || d0.pack_count != d1.pack_count);
                let mut packs: Vec<u16> = d0.contents.iter().filter(|(k, v)| d1.contents.get(*k) != Some(v)).filter_map(|(k, _)| k.split(':').next().and_then(|p| p.parse().ok())).collect();
                packs.extend(d0.packs.iter().filter(|(k, v)| d1.packs.get(*k) != Some(v)).map(|(k, _)| *k));
                packs.sort();
                packs.dedup();
                d1.live_detail = Some((packs, d0.indexes != d1.indexes));
                return d1;
            }
            Err(e) => {
                d.open = Some(Acc::Err(e.chars().take(200).collect()));
                return d;
            }
        }
    }
    // integrity checks of every file and every pack in it
    for f in &job.files {
        match jbk::tools::open_pack(dir.join(f)) {
            Err(e) => {
                d.file_checks.insert(f.clone(), Acc::Err(e.to_string().chars().take(200).collect()));
            }
            Ok(cp) => {
                let mut uuids: Vec<uuid::Uuid> = cp.iter().map(|(u, _)| *u).collect();
                uuids.sort();
                for u in uuids {
                    let r = cp.get_pack_reader(&u).unwrap();
                    d.pack_checks.insert(format!("{f}|{u}"), acc(check_pack_reader(&r)));
                }
                d.file_checks.insert(f.clone(), acc(cp.check()));
            }
        }
    }
    if job.full {
        d.manifest = Some(dump_manifest(&dir.join(&job.main)));
        for f in &job.files {
            dump_bare(&dir.join(f), &job.index_names, &mut d.bare, f);
        }
    }
    let c = match jbk::reader::Container::new(dir.join(&job.main)) {
        Ok(c) => {
            d.open = Some(Acc::Ok(()));
            c
        }
        Err(e) => {
            d.open = Some(Acc::Err(e.to_string().chars().take(200).collect()));
            return d;
        }
    };
    fill_from_container(&c, job, &mut d);
    if !job.full {
        return d;
    }
    if job.concurrent > 1 {
        if let Ok(c2) = jbk::reader::Container::new(dir.join(&job.main)) {
            let c2 = std::sync::Arc::new(c2);
            let n = job.concurrent as usize;
            let barrier = std::sync::Arc::new(std::sync::Barrier::new(n));
            let addrs = std::sync::Arc::new(job.addresses.clone());
            let handles: Vec<_> = (0..n)
                .map(|t| {
                    let c2 = std::sync::Arc::clone(&c2);
                    let barrier = std::sync::Arc::clone(&barrier);
                    let addrs = std::sync::Arc::clone(&addrs);
                    std::thread::spawn(move || {
                        barrier.wait();
                        let mut total = 0u64;
                        // all threads start with the same content (same cluster), then diverge
                        for k in 0..addrs.len() {
                            let (p, cid) = addrs[if k == 0 { 0 } else { (k + t) % addrs.len() }];
                            if let Ok(Some(jbk::reader::MayMissPack::FOUND(Some(r)))) = c2.get_bytes(jbk::ContentAddress::new(p.into(), cid.into())) {
                                let mut v = Vec::new();
                                if r.stream().take(64 << 20).read_to_end(&mut v).is_ok() {
                                    total += v.len() as u64;
                                }
                            }
                        }
                        total
                    })
                })
                .collect();
            for h in handles {
                // a panicking reader thread must kill the child like any other panic
                if h.join().is_err() {
                    std::process::exit(101);
                }
            }
        }
    }
    d
}
