//! Generators for contents, compression and insertion sequences (DESIGN 2.1).
//! Everything random comes from proptest strategies; content bytes are *derived*
//! from (seed, len, entropy) so that a case stays small and is its own replay unit.

use crate::engine::Tier;
use jubako as jbk;
use proptest::prelude::*;
use serde::{Deserialize, Serialize};

#[derive(Serialize, Deserialize, Clone, Copy, Debug, PartialEq, Eq, Hash)]
pub enum Comp {
    None,
    Lz4(u32),
    Lzma(u32),
    Zstd(i32),
}

impl Comp {
    pub fn to_jbk(self) -> jbk::creator::Compression {
        match self {
            Comp::None => jbk::creator::Compression::None,
            Comp::Lz4(l) => jbk::creator::Compression::Lz4(deranged::RangedU32::new(l.min(15)).unwrap()),
            Comp::Lzma(l) => jbk::creator::Compression::Lzma(deranged::RangedU32::new(l.min(9)).unwrap()),
            Comp::Zstd(l) => {
                jbk::creator::Compression::Zstd(deranged::RangedI32::new(l.clamp(-22, 22)).unwrap())
            }
        }
    }
    /// cluster header nibble
    pub fn code(self) -> u8 {
        match self {
            Comp::None => 0,
            Comp::Lz4(_) => 1,
            Comp::Lzma(_) => 2,
            Comp::Zstd(_) => 3,
        }
    }
    pub fn name(self) -> &'static str {
        match self {
            Comp::None => "none",
            Comp::Lz4(_) => "lz4",
            Comp::Lzma(_) => "lzma",
            Comp::Zstd(_) => "zstd",
        }
    }
    /// cheap enough for large data? (encoder time/memory, DESIGN 2.1)
    pub fn tame(self) -> Comp {
        match self {
            Comp::Lzma(l) if l >= 6 => Comp::Lzma(l % 6),
            Comp::Zstd(l) if l > 19 => Comp::Zstd(l - 19),
            Comp::Zstd(l) if l < -19 => Comp::Zstd(l + 19),
            Comp::Lz4(l) if l > 9 => Comp::Lz4(l - 9),
            c => c,
        }
    }
}

pub fn comp_strategy() -> BoxedStrategy<Comp> {
    prop_oneof![
        3 => Just(Comp::None),
        1 => Just(Comp::Lz4(3)),
        1 => Just(Comp::Lzma(9)),
        1 => Just(Comp::Zstd(5)),
        2 => (0u32..=15).prop_map(Comp::Lz4),
        2 => (0u32..=9).prop_map(Comp::Lzma),
        2 => (-22i32..=22).prop_map(Comp::Zstd),
    ]
    .boxed()
}

/// only compressing algorithms
pub fn real_comp_strategy() -> BoxedStrategy<Comp> {
    prop_oneof![
        1 => Just(Comp::Lz4(3)),
        1 => Just(Comp::Lzma(9)),
        1 => Just(Comp::Zstd(5)),
        2 => (0u32..=15).prop_map(Comp::Lz4),
        2 => (0u32..=9).prop_map(Comp::Lzma),
        2 => (-22i32..=22).prop_map(Comp::Zstd),
    ]
    .boxed()
}

#[derive(Serialize, Deserialize, Clone, Copy, Debug, PartialEq, Eq, Hash)]
pub enum Entropy {
    Zero,
    Low,
    Text,
    High,
}

#[derive(Serialize, Deserialize, Clone, Copy, Debug, PartialEq, Eq, Hash)]
pub enum Hint {
    Yes,
    No,
    Detect,
}

impl Hint {
    pub fn to_jbk(self) -> jbk::creator::CompHint {
        match self {
            Hint::Yes => jbk::creator::CompHint::Yes,
            Hint::No => jbk::creator::CompHint::No,
            Hint::Detect => jbk::creator::CompHint::Detect,
        }
    }
}

#[derive(Serialize, Deserialize, Clone, Copy, Debug, PartialEq, Eq, Hash)]
pub enum Source {
    Mem,
    File,
    FileRange { before: u16, after: u16 },
}

#[derive(Serialize, Deserialize, Clone, Debug, PartialEq, Eq)]
pub struct ContentSpec {
    pub len: u32,
    pub ent: Entropy,
    pub seed: u32,
    pub hint: Hint,
    pub source: Source,
    /// reuse the bytes of an earlier content of the sequence (monotone index, see `pick`)
    pub dup_of: Option<u16>,
    /// with `dup_of`: flip one byte of the copy (position selector over its length; u16::MAX = the
    /// last byte): same length, same head, different content
    #[serde(default)]
    pub flip: Option<u16>,
}

const WORDS: [&str; 12] = [
    "jubako", "pack", "cluster", "entry", "value", "store", " ", "\n", "the", "0123456789", "é", "content",
];

pub fn content_bytes(seed: u32, len: usize, ent: Entropy) -> Vec<u8> {
    let mut x: u64 = (seed as u64).wrapping_mul(0x9E3779B97F4A7C15) | 1;
    let mut next = move || {
        x ^= x << 13;
        x ^= x >> 7;
        x ^= x << 17;
        x
    };
    match ent {
        Entropy::Zero => vec![(seed & 0xff) as u8; len],
        Entropy::Low => {
            let b = next() as u8;
            (0..len).map(|i| b.wrapping_add((i / 97) as u8)).collect()
        }
        Entropy::Text => {
            let mut v = Vec::with_capacity(len + 16);
            while v.len() < len {
                v.extend_from_slice(WORDS[(next() % WORDS.len() as u64) as usize].as_bytes());
            }
            v.truncate(len);
            v
        }
        Entropy::High => {
            let mut v = Vec::with_capacity(len + 8);
            while v.len() < len {
                v.extend_from_slice(&next().to_le_bytes());
            }
            v.truncate(len);
            v
        }
    }
}

pub fn hint_strategy() -> BoxedStrategy<Hint> {
    prop_oneof![Just(Hint::Yes), Just(Hint::No), Just(Hint::Detect)].boxed()
}

pub fn entropy_strategy() -> BoxedStrategy<Entropy> {
    prop_oneof![
        1 => Just(Entropy::Zero),
        2 => Just(Entropy::Low),
        2 => Just(Entropy::Text),
        3 => Just(Entropy::High),
    ]
    .boxed()
}

pub fn source_strategy() -> BoxedStrategy<Source> {
    prop_oneof![
        5 => Just(Source::Mem),
        1 => Just(Source::File),
        2 => (1u16..200, 0u16..200).prop_map(|(before, after)| Source::FileRange { before, after }),
        // `after == 0`: the range is given as "from `before` to the end of the file" (size None)
        1 => (1u16..5000).prop_map(|before| Source::FileRange { before, after: 0 }),
    ]
    .boxed()
}

/// Length classes built around the boundaries the code cares about.
#[derive(Clone, Copy, Debug, PartialEq, Eq)]
pub enum LenClass {
    Tiny,   // 0..40, for very long sequences
    Small,  // everything up to a few KiB + 1-byte/2-byte width boundaries
    Any,    // + 64 KiB boundary, 16 MiB is left to the fixed matrix
    Huge,   // around CLUSTER_SIZE (4 MiB)
}

pub fn len_strategy(class: LenClass) -> BoxedStrategy<u32> {
    match class {
        LenClass::Tiny => prop_oneof![
            2 => Just(0u32),
            2 => Just(1u32),
            6 => 0u32..40,
        ]
        .boxed(),
        LenClass::Small => prop_oneof![
            2 => Just(0u32),
            1 => Just(1u32),
            6 => 0u32..40,
            3 => 250u32..=258,
            2 => 4094u32..=4098,
            2 => (1u32..=6).prop_map(|k| k * 1024),
            3 => 0u32..5000,
        ]
        .boxed(),
        LenClass::Any => prop_oneof![
            2 => Just(0u32),
            1 => Just(1u32),
            6 => 0u32..40,
            4 => 250u32..=258,
            2 => 4094u32..=4098,
            2 => (1u32..=8).prop_map(|k| k * 1024),
            3 => 0u32..5000,
            3 => 65530u32..=65540,
            1 => 60000u32..70000,
        ]
        .boxed(),
        LenClass::Huge => ((1u32 << 22) - 3..=(1u32 << 22) + 3).boxed(),
    }
}

pub fn content_strategy(class: LenClass, mem_only: bool) -> BoxedStrategy<ContentSpec> {
    let source = if mem_only {
        Just(Source::Mem).boxed()
    } else {
        source_strategy()
    };
    (
        len_strategy(class),
        entropy_strategy(),
        any::<u32>(),
        hint_strategy(),
        source,
        prop_oneof![6 => Just(None), 1 => any::<u16>().prop_map(Some)],
        prop_oneof![3 => Just(None), 1 => Just(Some(u16::MAX)), 1 => any::<u16>().prop_map(Some)],
    )
        .prop_map(|(len, ent, seed, hint, source, dup_of, flip)| ContentSpec {
            len,
            ent,
            seed,
            hint,
            source,
            dup_of,
            flip,
        })
        .boxed()
}

/// Insertion sequences: 0, 1, few, hundreds, around the 4095-blob split, 8190.., with a
/// rare content of about CLUSTER_SIZE.
pub fn content_seq_strategy(tier: Tier) -> BoxedStrategy<Vec<ContentSpec>> {
    let big = if tier == Tier::Thorough { 2 } else { 1 };
    prop_oneof![
        30 => prop::collection::vec(content_strategy(LenClass::Any, false), 0..12),
        20 => prop::collection::vec(content_strategy(LenClass::Small, false), 5..60),
        8 => prop::collection::vec(content_strategy(LenClass::Small, true), 60..400),
        3 => prop::collection::vec(content_strategy(LenClass::Tiny, true), 4090..4102),
        1 => prop::collection::vec(content_strategy(LenClass::Tiny, true), 8188..8195),
        3 => same_hint_run_strategy(),
        1 => big_near_duplicate_strategy(),
        big => (
            prop::collection::vec(content_strategy(LenClass::Small, false), 0..6),
            content_strategy(LenClass::Huge, false),
            prop::collection::vec(content_strategy(LenClass::Small, false), 0..6),
        )
            .prop_map(|(mut a, b, c)| {
                a.push(b);
                a.extend(c);
                a
            }),
    ]
    .boxed()
}

/// A run of `n` tiny contents all carrying the same hint (fills a raw or a compressed cluster:
/// 4095 blobs), followed by a few mixed ones.
pub fn same_hint_run_strategy() -> BoxedStrategy<Vec<ContentSpec>> {
    (
        prop_oneof![Just(Hint::No), Just(Hint::Yes), Just(Hint::No)],
        prop_oneof![3 => 4094usize..4100, 1 => 8189usize..8194],
        any::<u32>(),
        prop::collection::vec(content_strategy(LenClass::Small, true), 0..6),
        // file-backed contents around the places where a cluster closes (the first blob of the next
        // cluster comes from a file while bytes of the previous cluster may still be buffered)
        prop::collection::vec((4090usize..4100, source_strategy()), 0..4),
    )
        .prop_map(|(hint, n, seed, tail, files)| {
            let mut v: Vec<ContentSpec> = (0..n as u32)
                .map(|i| ContentSpec { len: 3 + (seed.wrapping_add(i)) % 19, ent: Entropy::Text, seed: seed.wrapping_add(i), hint, source: Source::Mem, dup_of: None, flip: None })
                .collect();
            for (at, source) in files {
                for k in [at, at + 4095] {
                    if k < v.len() {
                        v[k].source = source;
                    }
                }
            }
            v.extend(tail);
            v
        })
        .boxed()
}

/// A content of about CLUSTER_SIZE and a copy of it differing only in one late byte.
pub fn big_near_duplicate_strategy() -> BoxedStrategy<Vec<ContentSpec>> {
    (content_strategy(LenClass::Huge, true), prop_oneof![2 => Just(u16::MAX), 1 => 65000u16..65535, 1 => any::<u16>()], hint_strategy(), prop::collection::vec(content_strategy(LenClass::Small, true), 0..4))
        .prop_map(|(mut big, flip, hint, tail)| {
            big.dup_of = None;
            let copy = ContentSpec { len: big.len, ent: big.ent, seed: big.seed, hint, source: Source::Mem, dup_of: Some(0), flip: Some(flip) };
            let mut v = vec![big, copy];
            v.extend(tail);
            v
        })
        .boxed()
}

/// small sequences (used where the container is only a vehicle)
pub fn small_content_seq_strategy() -> BoxedStrategy<Vec<ContentSpec>> {
    prop::collection::vec(content_strategy(LenClass::Small, false), 0..10).boxed()
}

/// Resolve the bytes of every content of a sequence (dup_of applied).
pub fn resolve_contents(seq: &[ContentSpec]) -> Vec<Vec<u8>> {
    let mut out: Vec<Vec<u8>> = Vec::with_capacity(seq.len());
    for (i, c) in seq.iter().enumerate() {
        let bytes = match c.dup_of {
            Some(k) if i > 0 => {
                let mut b = out[crate::engine::pick(k, i)].clone();
                if let (Some(f), false) = (c.flip, b.is_empty()) {
                    let pos = if f == u16::MAX { b.len() - 1 } else { crate::engine::pick(f, b.len()) };
                    b[pos] ^= 0xFF;
                }
                b
            }
            _ => content_bytes(c.seed, c.len as usize, c.ent),
        };
        out.push(bytes);
    }
    out
}

pub fn total_len(seq: &[ContentSpec]) -> u64 {
    resolve_contents(seq).iter().map(|b| b.len() as u64).sum()
}

/// Build the `InputReader` a content is handed over with.
pub fn make_reader(bytes: &[u8], source: Source) -> Box<dyn jbk::creator::InputReader> {
    use std::io::Write;
    match source {
        Source::Mem => Box::new(std::io::Cursor::new(bytes.to_vec())),
        Source::File => {
            let mut f = tempfile::tempfile_in(crate::engine::scratch_root()).unwrap();
            f.write_all(bytes).unwrap();
            Box::new(jbk::creator::InputFile::new(f).unwrap())
        }
        Source::FileRange { before, after } => {
            let mut f = tempfile::tempfile_in(crate::engine::scratch_root()).unwrap();
            // surrounding bytes differ from anything content_bytes produces at the borders
            f.write_all(&vec![0xA5; before as usize]).unwrap();
            f.write_all(bytes).unwrap();
            f.write_all(&vec![0x5A; after as usize]).unwrap();
            // a range that ends with the file is given without a size (second entry of `new_range`)
            let size = if after == 0 { None } else { Some(bytes.len() as u64) };
            Box::new(jbk::creator::InputFile::new_range(f, before as u64, size).unwrap())
        }
    }
}

pub const VENDOR: [u8; 4] = [0x6a, 0x62, 0x6b, 0x76];

pub fn vendor() -> jbk::VendorId {
    jbk::VendorId::new(VENDOR)
}
