//! E3 — crash-point enumerator for C09 (DESIGN 4.2): the high-level creator runs in a child
//! process under the LD_PRELOAD write-budget shim; after the child ended (killed, error,
//! panic or success) the destination path must be absent / the previous complete file /
//! a complete container that opens, verifies and equals the model.

use crate::container::*;
use crate::dirgen::*;
use crate::engine::*;
use crate::faults::base_spec;
use crate::gen::*;
use jubako as jbk;
use serde::{Deserialize, Serialize};
use std::collections::{BTreeMap, BTreeSet};
use std::path::{Path, PathBuf};
use std::sync::atomic::{AtomicUsize, Ordering};
use std::sync::Mutex;
use std::time::Instant;

pub fn shim() -> String {
    format!("{}/target/faultfs.so", crate::engine::verif_dir())
}

#[derive(Serialize, Deserialize, Clone, Copy, Debug, PartialEq, Eq, Hash, PartialOrd, Ord)]
pub enum Mode {
    Kill,
    Enospc,
}

#[derive(Serialize, Deserialize, Clone, Debug)]
pub struct Case {
    pub spec: ContainerSpec,
    pub old_spec: ContainerSpec,
    pub pre_existing: bool,
    pub mode: Mode,
    pub budget: u64,
    /// instead of a write fault: a non-empty directory sits at the final path of this output
    /// file, so that putting the finished file in place (rename) fails at that moment
    #[serde(default)]
    pub obstruct: Option<String>,
    /// instead of a write fault: content number `.0` is a file that cannot be read (kind `.1`,
    /// see container::INPUT_FAULT) when the creator comes to read it
    #[serde(default)]
    pub input_fault: Option<(usize, u8)>,
    /// file name of the entry point (default a.jbk); long names make the recorded locations of the
    /// packs living in their own files exceed what a pack info can hold
    #[serde(default)]
    pub out_name: Option<String>,
    /// after the faulty run, a second, fault-free creation of a SMALLER container at the same
    /// destination (the retry after a crash, among whatever the first run left behind)
    #[serde(default)]
    pub retry: bool,
}

/// `jbkv create-child <spec.json> <destdir> <name>`: the process that is killed.
pub fn create_child_cmd(spec_path: &Path, dest: &Path, name: &str) -> i32 {
    let spec: ContainerSpec = serde_json::from_slice(&std::fs::read(spec_path).expect("spec readable")).expect("spec decodes");
    if let Ok(v) = std::env::var("JBKV_INPUT_FAULT") {
        let mut it = v.split(':').map(|x| x.parse::<usize>().expect("JBKV_INPUT_FAULT=k:kind"));
        *crate::container::INPUT_FAULT.lock().unwrap() = Some((it.next().unwrap(), it.next().unwrap() as u8));
    }
    match build(&spec, dest, name, None) {
        Ok(_) => 0,
        Err(f) => {
            eprintln!("create-child: {} {}", f.sig, f.msg);
            1
        }
    }
}

#[derive(Debug, Clone, PartialEq, Eq)]
pub enum DestState {
    Absent,
    Old,
    NewOk,
    Bad(String, String), // sig, message
}

#[derive(Debug, Clone)]
pub struct RunInfo {
    pub child_end: String,
    pub state: DestState,
    pub leftovers: usize,
}

#[derive(Clone)]
pub struct Prepared {
    pub spec: ContainerSpec,
    pub old_spec: ContainerSpec,
    pub model: ContainerModel,
    pub old_dir: PathBuf,
    pub old_main: Vec<u8>,
    pub spec_path: PathBuf,
    pub total: u64,
    pub bounds: Vec<u64>,
    pub final_size: u64,
    /// output files other than the entry point
    pub other_files: Vec<String>,
    /// file name of the entry point
    pub out_name: String,
    /// creation may legitimately refuse (a location that does not fit a pack info): a fault-free
    /// run then need not succeed, but must leave nothing / the previous file
    pub may_refuse: bool,
    /// the smaller container created by the retry after a crash, and its model
    pub retry_spec_path: PathBuf,
    pub retry_model: ContainerModel,
    /// cumulated bytes at which the first output file reaches its final name is unknown to the
    /// shim; classes use the position relative to the whole stream instead
    pub name: String,
}

fn copy_files(from: &Path, to: &Path) {
    for e in std::fs::read_dir(from).unwrap().flatten() {
        if e.path().is_file() {
            std::fs::copy(e.path(), to.join(e.file_name())).unwrap();
        }
    }
}

/// the previous container under the entry-point name of this scenario (only its entry point is
/// looked at afterwards: byte-identical or not)
fn place_old(p: &Prepared, dest: &Path) {
    copy_files(&p.old_dir, dest);
    if p.out_name != "a.jbk" {
        std::fs::rename(dest.join("a.jbk"), dest.join(&p.out_name)).unwrap();
    }
}

/// a container of the same packaging, smaller than anything the sweeps create
fn retry_spec_for(spec: &ContainerSpec) -> ContainerSpec {
    ContainerSpec {
        packaging: spec.packaging,
        comp: Comp::None,
        contents: vec![ContentSpec { len: 5, ent: Entropy::Text, seed: 99, hint: Hint::No, source: Source::Mem, dup_of: None, flip: None }],
        extra_packs: vec![],
        dedup: false,
        dir: DirSpec::addresses_only(),
    }
}

fn run_child(spec_path: &Path, dest: &Path, out_name: &str, env: &[(&str, String)]) -> String {
    let exe = std::env::current_exe().unwrap();
    let mut cmd = std::process::Command::new(exe);
    cmd.arg("create-child").arg(spec_path).arg(dest).arg(out_name).stdout(std::process::Stdio::null()).stderr(std::process::Stdio::null());
    cmd.env("LD_PRELOAD", shim());
    for (k, v) in env {
        cmd.env(k, v);
    }
    let st = cmd.status().expect("spawn create-child");
    use std::os::unix::process::ExitStatusExt;
    match (st.code(), st.signal()) {
        (Some(0), _) => "success".into(),
        (Some(1), _) => "error-returned".into(),
        (Some(101), _) => "panicked".into(),
        (Some(c), _) => format!("exit({c})"),
        (None, Some(9)) => "killed".into(),
        (None, Some(s)) => format!("signal({s})"),
        _ => "unknown".into(),
    }
}

pub fn prepare(name: &str, spec: &ContainerSpec, old_spec: &ContainerSpec, scratch: &Path) -> Result<Prepared, String> {
    // reference build (no shim): the model of the new container
    let refdir = scratch.join(format!("{name}-ref"));
    std::fs::create_dir_all(&refdir).unwrap();
    let built = build(spec, &refdir, "a.jbk", None).map_err(|f| format!("reference build: {} {}", f.sig, f.msg))?;
    let final_size: u64 = built.files.iter().map(|f| std::fs::metadata(refdir.join(f)).unwrap().len()).sum();
    // the previous complete container
    let old_dir = scratch.join(format!("{name}-old"));
    std::fs::create_dir_all(&old_dir).unwrap();
    build(old_spec, &old_dir, "a.jbk", None).map_err(|f| format!("old build: {} {}", f.sig, f.msg))?;
    let old_main = std::fs::read(old_dir.join("a.jbk")).unwrap();
    let spec_path = scratch.join(format!("{name}-spec.json"));
    std::fs::write(&spec_path, serde_json::to_vec(spec).unwrap()).unwrap();
    // fault-free run under the shim: total bytes and write boundaries; also the shim self-check
    let cdir = scratch.join(format!("{name}-count"));
    std::fs::create_dir_all(&cdir).unwrap();
    let report = scratch.join(format!("{name}-report.txt"));
    let _ = std::fs::remove_file(&report);
    let end = run_child(&spec_path, &cdir, "a.jbk", &[("JBKV_MODE", "count".into()), ("JBKV_DIR", cdir.to_string_lossy().to_string()), ("JBKV_REPORT", report.to_string_lossy().to_string())]);
    if end != "success" {
        return Err(format!("fault-free run under the shim ends with {end}"));
    }
    let rep = std::fs::read_to_string(&report).map_err(|e| format!("no shim report: {e}"))?;
    let line = rep.lines().last().unwrap_or("");
    let get = |k: &str| line.split_whitespace().find_map(|w| w.strip_prefix(k)).unwrap_or("").to_string();
    let total: u64 = get("bytes=").parse().map_err(|_| format!("bad shim report: {line}"))?;
    let bounds: Vec<u64> = get("bounds=").split(',').filter_map(|x| x.parse().ok()).collect();
    if total < final_size {
        return Err(format!("shim is blind: saw {total} bytes, final files hold {final_size}"));
    }
    // and the fault-free result equals the model
    let c = jbk::reader::Container::new(cdir.join("a.jbk")).map_err(|e| format!("fault-free result unreadable: {e}"))?;
    verify_container(&c, &built.model, "").map_err(|f| format!("fault-free result differs from the model: {} {}", f.sig, f.msg))?;
    let other_files = built.files.iter().filter(|f| f.as_str() != "a.jbk").cloned().collect();
    // the smaller container of the retry-after-crash scenario
    let rspec = retry_spec_for(spec);
    let rdir = scratch.join(format!("{name}-retry"));
    std::fs::create_dir_all(&rdir).unwrap();
    let rbuilt = build(&rspec, &rdir, "a.jbk", None).map_err(|f| format!("retry build: {} {}", f.sig, f.msg))?;
    let retry_spec_path = scratch.join(format!("{name}-retry-spec.json"));
    std::fs::write(&retry_spec_path, serde_json::to_vec(&rspec).unwrap()).unwrap();
    Ok(Prepared { spec: spec.clone(), old_spec: old_spec.clone(), model: built.model, old_dir, old_main, spec_path, total, bounds, final_size, other_files, out_name: "a.jbk".into(), may_refuse: false, retry_spec_path, retry_model: rbuilt.model, name: name.to_string() })
}

pub fn examine(dest: &Path, out_name: &str, prep_model: &ContainerModel, old_main: Option<&[u8]>) -> (DestState, usize) {
    let main = dest.join(out_name);
    let leftovers = std::fs::read_dir(dest).map(|d| d.flatten().filter(|e| e.file_name().to_string_lossy().starts_with(".tmp")).count()).unwrap_or(0);
    if !main.exists() {
        return (
            match old_main {
                None => DestState::Absent,
                Some(_) => DestState::Bad("previous-file-lost".into(), "the destination held a complete container before and is absent now".into()),
            },
            leftovers,
        );
    }
    let data = std::fs::read(&main).unwrap_or_default();
    if let Some(old) = old_main {
        if data == old {
            return (DestState::Old, leftovers);
        }
    }
    let _ = take_panic();
    let r = std::panic::catch_unwind(std::panic::AssertUnwindSafe(|| {
        let c = match jbk::reader::Container::new(&main) {
            Ok(c) => c,
            Err(e) => return Err(Failure::new("destination-not-a-container", format!("destination exists ({} bytes) but does not open: {e}", data.len()))),
        };
        verify_container(&c, prep_model, "destination-").map(|_| ())
    }));
    let st = match r {
        Ok(Ok(())) => DestState::NewOk,
        Ok(Err(f)) => DestState::Bad(f.sig, f.msg),
        Err(_) => DestState::Bad("destination-read-panics".into(), format!("reading the destination panics: {}", take_panic().unwrap_or_default())),
    };
    (st, leftovers)
}

pub fn run_case(p: &Prepared, pre_existing: bool, mode: Mode, budget: u64, dest: &Path) -> RunInfo {
    let _ = std::fs::remove_dir_all(dest);
    std::fs::create_dir_all(dest).unwrap();
    if pre_existing {
        place_old(p, dest);
    }
    let end = run_child(
        &p.spec_path,
        dest,
        &p.out_name,
        &[
            ("JBKV_MODE", match mode { Mode::Kill => "kill", Mode::Enospc => "enospc" }.to_string()),
            ("JBKV_BUDGET", budget.to_string()),
            ("JBKV_DIR", dest.to_string_lossy().to_string()),
        ],
    );
    let (state, leftovers) = examine(dest, &p.out_name, &p.model, if pre_existing { Some(&p.old_main) } else { None });
    RunInfo { child_end: end, state, leftovers }
}

/// Retry after a crash: the faulty run of `p.spec` (fresh destination), then, among whatever it
/// left behind, a fault-free creation of a smaller container under the same name.
pub fn run_retry(p: &Prepared, mode: Mode, budget: u64, dest: &Path) -> RunInfo {
    let _ = std::fs::remove_dir_all(dest);
    std::fs::create_dir_all(dest).unwrap();
    let first = run_child(
        &p.spec_path,
        dest,
        &p.out_name,
        &[("JBKV_MODE", match mode { Mode::Kill => "kill", Mode::Enospc => "enospc" }.to_string()), ("JBKV_BUDGET", budget.to_string()), ("JBKV_DIR", dest.to_string_lossy().to_string())],
    );
    let end = run_child(&p.retry_spec_path, dest, &p.out_name, &[("JBKV_MODE", "count".to_string()), ("JBKV_DIR", dest.to_string_lossy().to_string())]);
    let (state, leftovers) = examine(dest, &p.out_name, &p.retry_model, None);
    RunInfo { child_end: format!("{first}, then {end}"), state, leftovers }
}

pub fn judge_retry(p: &Prepared, budget: u64, info: &RunInfo) -> Option<Failure> {
    match &info.state {
        DestState::NewOk if info.child_end.ends_with("then success") => None,
        DestState::Bad(sig, msg) => Some(Failure::new(format!("retry-after-crash:{sig}"), format!("first creation stopped at budget {budget}/{}, a smaller container was then created at the same destination without any fault: children {}: {msg}", p.total, info.child_end))),
        other => Some(Failure::new("retry-after-crash:fault-free-run-fails", format!("first creation stopped at budget {budget}/{}, the fault-free retry: children {}, destination {other:?}", p.total, info.child_end))),
    }
}

/// rename-failure variant: no write fault, but `file` cannot be put in place
pub fn run_obstructed(p: &Prepared, pre_existing: bool, file: &str, dest: &Path) -> RunInfo {
    let _ = std::fs::remove_dir_all(dest);
    std::fs::create_dir_all(dest).unwrap();
    if pre_existing {
        place_old(p, dest);
    }
    let ob = dest.join(file);
    let _ = std::fs::remove_file(&ob);
    std::fs::create_dir_all(ob.join("occupied")).unwrap();
    let end = run_child(&p.spec_path, dest, &p.out_name, &[("JBKV_MODE", "count".to_string()), ("JBKV_DIR", dest.to_string_lossy().to_string())]);
    let (state, leftovers) = examine(dest, &p.out_name, &p.model, if pre_existing { Some(&p.old_main) } else { None });
    RunInfo { child_end: end, state, leftovers }
}

/// Creation with an input that can no longer be read when the creator comes to it.
pub fn run_input_fault(p: &Prepared, pre_existing: bool, fault: (usize, u8), dest: &Path) -> RunInfo {
    let _ = std::fs::remove_dir_all(dest);
    std::fs::create_dir_all(dest).unwrap();
    if pre_existing {
        place_old(p, dest);
    }
    let end = run_child(&p.spec_path, dest, &p.out_name, &[("JBKV_MODE", "count".to_string()), ("JBKV_DIR", dest.to_string_lossy().to_string()), ("JBKV_INPUT_FAULT", format!("{}:{}", fault.0, fault.1))]);
    let (state, leftovers) = examine(dest, &p.out_name, &p.model, if pre_existing { Some(&p.old_main) } else { None });
    RunInfo { child_end: end, state, leftovers }
}

/// The creator may have read the content before it became unreadable (then the complete container
/// is right); otherwise creation has to fail and leave nothing, or the previous file.
pub fn judge_input_fault(fault: (usize, u8), info: &RunInfo) -> Option<Failure> {
    match &info.state {
        DestState::Bad(sig, msg) => Some(Failure::new(format!("input-fault:{sig}"), format!("content #{} unreadable (kind {}): child {}: {msg}", fault.0, fault.1, info.child_end))),
        DestState::NewOk => None,
        _ if info.child_end == "success" => Some(Failure::new("input-fault:success-without-result", format!("content #{} unreadable (kind {}): creation reports success, destination is {:?}", fault.0, fault.1, info.state))),
        _ => None,
    }
}

pub fn judge_obstructed(p: &Prepared, file: &str, info: &RunInfo) -> Option<Failure> {
    match &info.state {
        DestState::Bad(sig, msg) => Some(Failure::new(format!("obstructed:{sig}"), format!("{file} cannot be renamed into place: child {}: {msg}", info.child_end))),
        DestState::NewOk => Some(Failure::new("obstructed:complete-container-without-its-file", format!("{file} could not be put in place, yet the destination reads as the complete new container (spec {})", p.name))),
        _ if info.child_end == "success" => Some(Failure::new("obstructed:success-reported", format!("{file} could not be put in place and creation reports success"))),
        _ => None,
    }
}

pub fn judge(p: &Prepared, budget: u64, info: &RunInfo) -> Option<Failure> {
    if let DestState::Bad(sig, msg) = &info.state {
        return Some(Failure::new(sig.clone(), format!("budget {budget}/{}: child {}: {msg}", p.total, info.child_end)));
    }
    if budget >= p.total && p.may_refuse && info.child_end != "success" {
        // refused (a location too long for a pack info): nothing new may have appeared
        return match info.state {
            DestState::NewOk => Some(Failure::new("refused-yet-present", format!("creation ended with {} and the destination reads as the new container", info.child_end))),
            _ => None,
        };
    }
    if budget >= p.total {
        if info.child_end != "success" || info.state != DestState::NewOk {
            return Some(Failure::new("no-fault-run-fails", format!("budget {budget} >= total {}: child {} and destination {:?}", p.total, info.child_end, info.state)));
        }
    }
    if info.child_end == "success" && info.state != DestState::NewOk {
        return Some(Failure::new("success-without-result", format!("creation reports success but the destination is {:?}", info.state)));
    }
    None
}

fn old_spec_for(spec: &ContainerSpec) -> ContainerSpec {
    let mut old = base_spec(1, spec.packaging, Comp::None, 0xdead);
    old.extra_packs.clear();
    old.packaging = spec.packaging;
    old
}

pub fn replay_child_cmd(path: &Path) -> i32 {
    install_panic_hook();
    let txt = std::fs::read_to_string(path).expect("replay file readable");
    let saved: SavedFailure = serde_json::from_str(&txt).expect("replay file is a SavedFailure");
    let case: Case = serde_json::from_value(saved.case).expect("case decodes");
    let scratch = tempfile::Builder::new().prefix("jbkv-C09-replay-").tempdir_in(scratch_root()).unwrap();
    let mut p = match prepare("replay", &case.spec, &case.old_spec, scratch.path()) {
        Ok(p) => p,
        Err(e) => {
            println!("FAIL prepare\u{1}{e}");
            return 1;
        }
    };
    if let Some(n) = &case.out_name {
        p.out_name = n.clone();
        p.may_refuse = true;
    }
    if case.retry {
        for _ in 0..3 {
            let info = run_retry(&p, case.mode, case.budget, &scratch.path().join("dest"));
            if let Some(f) = judge_retry(&p, case.budget, &info) {
                println!("FAIL {}\u{1}{}", f.sig, f.msg.replace('\n', " "));
                return 1;
            }
        }
        return 0;
    }
    if let Some(fault) = case.input_fault {
        let info = run_input_fault(&p, case.pre_existing, fault, &scratch.path().join("dest"));
        if let Some(f) = judge_input_fault(fault, &info) {
            println!("FAIL {}\u{1}{}", f.sig, f.msg.replace('\n', " "));
            return 1;
        }
        return 0;
    }
    if let Some(file) = &case.obstruct {
        let info = run_obstructed(&p, case.pre_existing, file, &scratch.path().join("dest"));
        if let Some(f) = judge_obstructed(&p, file, &info) {
            println!("FAIL {}\u{1}{}", f.sig, f.msg.replace('\n', " "));
            return 1;
        }
        return 0;
    }
    // a crash point is re-run 5 times (thread scheduling may move which write hits the budget)
    for _ in 0..5 {
        let info = run_case(&p, case.pre_existing, case.mode, case.budget, &scratch.path().join("dest"));
        if let Some(f) = judge(&p, case.budget, &info) {
            println!("FAIL {}\u{1}{}", f.sig, f.msg.replace('\n', " "));
            return 1;
        }
    }
    0
}

pub fn check_cmd(tier: Tier) -> i32 {
    let id = "C09";
    let t0 = Instant::now();
    let seed = env_seed();
    install_panic_hook();
    let mut summary = RunSummary { violations: vec![], inconclusive: vec![], merged: WorkerResult::default(), known_printed: vec![], extra: BTreeMap::new() };
    if !Path::new(&shim()).exists() {
        eprintln!("INCONCLUSIVE property=C09: {} missing (run ./setup.sh)", shim());
        return 2;
    }
    replay_regress(id, &mut summary);
    let known = known_sigs(id);
    let scratch = tempfile::Builder::new().prefix("jbkv-C09-").tempdir_in(scratch_root()).unwrap();
    let s32 = seed as u32;
    // specs
    let mut specs: Vec<(String, ContainerSpec, u64)> = vec![]; // name, spec, stride
    let tiny = |packaging: Packaging, comp: Comp| ContainerSpec {
        packaging,
        comp,
        contents: vec![
            ContentSpec { len: 30, ent: Entropy::Text, seed: s32, hint: Hint::Yes, source: Source::Mem, dup_of: None, flip: None },
            ContentSpec { len: 0, ent: Entropy::Zero, seed: 1, hint: Hint::No, source: Source::Mem, dup_of: None, flip: None },
            ContentSpec { len: 17, ent: Entropy::High, seed: s32 ^ 9, hint: Hint::No, source: Source::Mem, dup_of: None, flip: None },
        ],
        extra_packs: vec![],
        dedup: false,
        dir: DirSpec::addresses_only(),
    };
    for p in Packaging::ALL {
        specs.push((format!("tiny-{p:?}-zstd"), tiny(p, Comp::Zstd(3)), 1));
    }
    match tier {
        Tier::Quick => {
            specs.push(("B-TwoFiles-none-extra".into(), base_spec(1, Packaging::TwoFiles, Comp::None, s32), 5));
            specs.push(("A-NoConcat-lz4".into(), base_spec(0, Packaging::NoConcat, Comp::Lz4(3), s32), 5));
        }
        Tier::Thorough => {
            for (i, p) in Packaging::ALL.iter().enumerate() {
                for (j, c) in [Comp::None, Comp::Zstd(5), Comp::Lz4(3), Comp::Lzma(2)].iter().enumerate() {
                    specs.push((format!("{}-{p:?}-{}", if (i + j) % 2 == 0 { "A" } else { "B" }, c.name()), base_spec((i + j) % 2, *p, *c, s32), 1));
                }
            }
            use proptest::strategy::{Strategy, ValueTree};
            let mut runner = proptest::test_runner::TestRunner::new_with_rng(
                proptest::test_runner::Config::default(),
                proptest::test_runner::TestRng::from_seed(proptest::test_runner::RngAlgorithm::ChaCha, &{
                    let mut b = [9u8; 32];
                    b[..8].copy_from_slice(&splitmix(seed).to_le_bytes());
                    b
                }),
            );
            let strat = container_strategy(2, dir_strategy(SizeClass::Small, SortMode::Sometimes, true, true));
            for k in 0..8 {
                let mut spec = strat.new_tree(&mut runner).unwrap().current();
                for c in spec.contents.iter_mut().chain(spec.extra_packs.iter_mut().flat_map(|e| e.contents.iter_mut())) {
                    c.source = Source::Mem;
                }
                specs.push((format!("gen{k}-{:?}-{}", spec.packaging, spec.comp.name()), spec, 7));
            }
        }
    }
    let mut preps = vec![];
    for (name, spec, stride) in &specs {
        match prepare(name, spec, &old_spec_for(spec), scratch.path()) {
            Ok(p) => preps.push((p, *stride)),
            Err(e) => {
                // the fault-free path itself is broken: that is a violation of "budget >= total must succeed"
                let saved = SavedFailure { property: id.into(), sig: "fault-free-run-broken".into(), msg: e.clone(), case: serde_json::to_value(Case { spec: spec.clone(), old_spec: old_spec_for(spec), pre_existing: false, mode: Mode::Enospc, budget: u64::MAX / 2, obstruct: None, input_fault: None, out_name: None, retry: false }).unwrap(), note: format!("spec {name}") };
                if known.contains(&saved.sig) {
                    continue;
                }
                let path = save_replay(id, &format!("s{seed}-prepare-{name}"), &saved);
                println!("VIOLATION property={id} replay={}", path.display());
                eprintln!("  {e}");
                summary.violations.push((saved.sig, path));
            }
        }
    }
    // entry-point names of 150..250 bytes: from 212 (TwoFiles) / 211 (NoConcat) bytes on, the recorded
    // location of the packs living in their own files no longer fits the 213 bytes of a pack info.
    // Creation may then refuse, leaving nothing (or the previous file); it may not put an entry
    // point in place that cannot reach its packs
    let n_plain = preps.len();
    for pi in 0..n_plain {
        if !preps[pi].0.name.starts_with("tiny-") {
            continue;
        }
        for len in [150usize, 211, 212, 213, 230, 250] {
            let mut p = preps[pi].0.clone();
            p.out_name = format!("{}.jbk", "n".repeat(len - 4));
            p.may_refuse = true;
            p.name = format!("{}-name{len}", p.name);
            let stride = (p.total / 40).max(1);
            preps.push((p, stride));
        }
        // names that are legal on this platform and look like something else to a careless
        // conversion (a Windows separator, a URL scheme, an escape, non-ASCII letters)
        for (k, odd) in ["we\\ird.jbk", "co:lon.jbk", "sp ace %41.jbk", "d\u{ed}a-\u{65e5}.jbk"].iter().enumerate() {
            let mut p = preps[pi].0.clone();
            p.out_name = odd.to_string();
            p.may_refuse = true;
            p.name = format!("{}-oddname{k}", p.name);
            let stride = (p.total / 25).max(1);
            preps.push((p, stride));
        }
    }
    // rename failures: every output file other than the entry point x {fresh, pre-existing}
    let mut obstruct_runs = 0u64;
    for (p, _) in preps.iter().filter(|(p, _)| !p.may_refuse) {
        for file in &p.other_files {
            for pre in [false, true] {
                let dest = scratch.path().join("dest-obstruct");
                let info = run_obstructed(p, pre, file, &dest);
                obstruct_runs += 1;
                *summary.merged.classes.entry(format!("obstructed-rename:{}", match &info.state { DestState::Absent => "absent", DestState::Old => "old", DestState::NewOk => "new-ok", DestState::Bad(..) => "BAD" })).or_default() += 1;
                if let Some(f) = judge_obstructed(p, file, &info) {
                    if known.contains(&f.sig) {
                        *summary.merged.excluded_known.entry(f.sig).or_default() += 1;
                        continue;
                    }
                    let saved = SavedFailure { property: id.into(), sig: f.sig.clone(), msg: f.msg.clone(), case: serde_json::to_value(Case { spec: p.spec.clone(), old_spec: p.old_spec.clone(), pre_existing: pre, mode: Mode::Enospc, budget: 0, obstruct: Some(file.clone()), input_fault: None, out_name: None, retry: false }).unwrap(), note: format!("rename of {file} obstructed; spec {}", p.name) };
                    let path = save_replay(id, &format!("s{seed}-obstruct-{}-{}", p.name, file.replace('.', "_")), &saved);
                    println!("VIOLATION property={id} replay={}", path.display());
                    eprintln!("  sig={} msg={}", f.sig, f.msg);
                    summary.violations.push((f.sig, path));
                }
            }
        }
    }
    summary.merged.evaluations += obstruct_runs;
    // unreadable inputs: every content of the main pack x {fresh, pre-existing}. Only kind 0 (reading
    // the handle fails with an error) is in the property's fault model; an input file that SHRINKS
    // after add_content (kinds 1, 2) raises no error anywhere - the creator then reports success for
    // a container whose content cannot be decoded - and is not demanded (DESIGN §14)
    let mut input_runs = 0u64;
    for (p, _) in preps.iter().filter(|(p, _)| !p.may_refuse) {
        if p.spec.contents.len() > 12 {
            continue;
        }
        for k in 0..p.spec.contents.len() {
            for kind in 0..1u8 {
                for pre in [false, true] {
                    let dest = scratch.path().join("dest-input");
                    let info = run_input_fault(p, pre, (k, kind), &dest);
                    input_runs += 1;
                    *summary.merged.classes.entry(format!("input-fault:{}:{}", ["unreadable", "cut-to-half", "cut-to-nothing"][kind as usize], match &info.state { DestState::Absent => "absent", DestState::Old => "old", DestState::NewOk => "new-ok", DestState::Bad(..) => "BAD" })).or_default() += 1;
                    if let Some(f) = judge_input_fault((k, kind), &info) {
                        if known.contains(&f.sig) {
                            *summary.merged.excluded_known.entry(f.sig).or_default() += 1;
                            continue;
                        }
                        let saved = SavedFailure { property: id.into(), sig: f.sig.clone(), msg: f.msg.clone(), case: serde_json::to_value(Case { spec: p.spec.clone(), old_spec: p.old_spec.clone(), pre_existing: pre, mode: Mode::Enospc, budget: 0, obstruct: None, input_fault: Some((k, kind)), out_name: None, retry: false }).unwrap(), note: format!("input of content #{k} unreadable; spec {}", p.name) };
                        let path = save_replay(id, &format!("s{seed}-input-{}-{k}-{kind}", p.name), &saved);
                        println!("VIOLATION property={id} replay={}", path.display());
                        eprintln!("  sig={} msg={}", f.sig, f.msg);
                        summary.violations.push((f.sig, path));
                    }
                }
            }
        }
    }
    summary.merged.evaluations += input_runs;
    // crash points
    struct Job {
        prep: usize,
        pre: bool,
        mode: Mode,
        budget: u64,
        retry: bool,
    }
    let mut jobs = vec![];
    for (pi, (p, stride)) in preps.iter().enumerate() {
        let mut budgets: BTreeSet<u64> = BTreeSet::new();
        let mut b = 0;
        // generated (larger) specs: at most ~1500 evenly spaced budgets, plus every write boundary
        let stride = if *stride > 1 { (*stride).max(p.total / 1500) } else { 1 };
        while b <= p.total {
            budgets.insert(b);
            b += stride;
        }
        for w in &p.bounds {
            for d in [-1i64, 0, 1] {
                let v = *w as i64 + d;
                if v >= 0 && v as u64 <= p.total + 1 {
                    budgets.insert(v as u64);
                }
            }
        }
        budgets.insert(p.total);
        budgets.insert(p.total + 1);
        if p.may_refuse {
            // long names: a coarse sweep only (the stream is the one of the plain spec)
            let all: Vec<u64> = budgets.iter().copied().collect();
            budgets = all.into_iter().filter(|b| *b % stride == 0 || *b >= p.total).collect();
        }
        for b in budgets {
            for pre in [false, true] {
                for mode in [Mode::Kill, Mode::Enospc] {
                    jobs.push(Job { prep: pi, pre, mode, budget: b, retry: false });
                }
            }
        }
        // retry after a crash: 48 crash points spread over the stream (denser towards its end,
        // where most has been written), then a fault-free creation of a smaller container
        if !p.may_refuse {
            let mut rb: BTreeSet<u64> = (1..=32u64).map(|k| p.total * k / 33).collect();
            rb.extend((0..16u64).map(|k| p.total.saturating_sub(1 + k * (p.total / 64).max(1))));
            for b in rb {
                for mode in [Mode::Kill, Mode::Enospc] {
                    jobs.push(Job { prep: pi, pre: false, mode, budget: b, retry: true });
                }
            }
        }
    }
    struct Tally {
        classes: BTreeMap<String, u64>,
        nontrivial: BTreeSet<u64>,
        nontrivial_cases: u64,
        samples: Vec<serde_json::Value>,
        failures: BTreeMap<String, (Failure, usize, bool, Mode, u64)>,
        excluded: BTreeMap<String, u64>,
    }
    let tally = Mutex::new(Tally { classes: BTreeMap::new(), nontrivial: BTreeSet::new(), nontrivial_cases: 0, samples: vec![], failures: BTreeMap::new(), excluded: BTreeMap::new() });
    let next = AtomicUsize::new(0);
    std::thread::scope(|s| {
        for w in 0..16 {
            let next = &next;
            let jobs = &jobs;
            let preps = &preps;
            let tally = &tally;
            let known = &known;
            let scratch = scratch.path();
            s.spawn(move || {
                let dest = scratch.join(format!("dest-{w}"));
                loop {
                    let i = next.fetch_add(1, Ordering::Relaxed);
                    if i >= jobs.len() {
                        break;
                    }
                    let j = &jobs[i];
                    let p = &preps[j.prep].0;
                    if j.retry {
                        let info = run_retry(p, j.mode, j.budget, &dest);
                        let f = judge_retry(p, j.budget, &info);
                        let mut t = tally.lock().unwrap();
                        *t.classes.entry(format!("retry-after-crash:{}", match &info.state { DestState::NewOk => "new-ok", DestState::Absent => "absent", DestState::Old => "old", DestState::Bad(..) => "BAD" })).or_default() += 1;
                        if info.leftovers > 0 {
                            *t.classes.entry("retry-after-crash:among-leftover-temp-files".into()).or_default() += 1;
                        }
                        if let Some(f) = f {
                            if known.contains(&f.sig) {
                                *t.excluded.entry(f.sig.clone()).or_default() += 1;
                            } else {
                                *t.classes.entry(format!("violation:{}", f.sig)).or_default() += 1;
                                let better = t.failures.get(&f.sig).map_or(true, |old| j.budget < old.4);
                                if better {
                                    t.failures.insert(f.sig.clone(), (f, j.prep, j.pre, j.mode, j.budget));
                                }
                            }
                        }
                        continue;
                    }
                    let info = run_case(p, j.pre, j.mode, j.budget, &dest);
                    let f = judge(p, j.budget, &info);
                    let mut t = tally.lock().unwrap();
                    if p.may_refuse {
                        *t.classes.entry(format!("long-name:{}:{}", if info.child_end == "success" { "created" } else { "not-created" }, match &info.state { DestState::NewOk => "new-ok", DestState::Absent => "absent", DestState::Old => "old", DestState::Bad(..) => "BAD" })).or_default() += 1;
                    }
                    let st = match &info.state {
                        DestState::Absent => "absent",
                        DestState::Old => "old",
                        DestState::NewOk => "new-ok",
                        DestState::Bad(..) => "BAD",
                    };
                    *t.classes.entry(format!("dest:{st}")).or_default() += 1;
                    *t.classes.entry(format!("child:{}", info.child_end)).or_default() += 1;
                    *t.classes.entry(format!("mode:{:?}", j.mode)).or_default() += 1;
                    *t.classes.entry(format!("packaging:{:?}", p.spec.packaging)).or_default() += 1;
                    *t.classes.entry(if j.pre { "pre-existing".to_string() } else { "fresh-destination".to_string() }).or_default() += 1;
                    if info.leftovers > 0 {
                        *t.classes.entry("leftover-temp-files".into()).or_default() += 1;
                    }
                    let inside = j.budget > 0 && j.budget < p.total;
                    if inside {
                        t.nontrivial_cases += 1;
                        // which tenth of the write stream the budget falls into
                        let decile = j.budget * 10 / p.total.max(1);
                        let key = hash_str(&format!("{}|{}|{:?}|{decile}|{st}|{}", p.name, j.pre, j.mode, info.child_end));
                        if t.nontrivial.insert(key) && t.samples.len() < 5 {
                            let s = serde_json::json!({"spec": p.name, "pre_existing": j.pre, "mode": format!("{:?}", j.mode), "budget": j.budget, "total_bytes": p.total, "child": info.child_end, "destination": st});
                            t.samples.push(s);
                        }
                    }
                    if let Some(f) = f {
                        if known.contains(&f.sig) {
                            *t.excluded.entry(f.sig.clone()).or_default() += 1;
                        } else {
                            *t.classes.entry(format!("violation:{}", f.sig)).or_default() += 1;
                            // keep the smallest budget per signature (the minimal reproduction)
                            let better = t.failures.get(&f.sig).map_or(true, |old| j.budget < old.4);
                            if better {
                                t.failures.insert(f.sig.clone(), (f, j.prep, j.pre, j.mode, j.budget));
                            }
                        }
                    }
                }
            });
        }
    });
    let t = tally.into_inner().unwrap();
    summary.merged.evaluations += jobs.len() as u64;
    summary.merged.cases += jobs.len() as u64;
    summary.merged.nontrivial_cases = t.nontrivial_cases;
    summary.merged.nontrivial_keys = t.nontrivial;
    summary.merged.classes.extend(t.classes);
    summary.merged.samples = t.samples;
    summary.merged.excluded_known = t.excluded;
    for (k, (sig, (f, prep, pre, mode, budget))) in t.failures.into_iter().enumerate() {
        let p = &preps[prep].0;
        let saved = SavedFailure {
            property: id.into(),
            sig: sig.clone(),
            msg: f.msg.clone(),
            case: serde_json::to_value(Case { spec: p.spec.clone(), old_spec: p.old_spec.clone(), pre_existing: pre, mode, budget, obstruct: None, input_fault: None, out_name: if p.out_name != "a.jbk" { Some(p.out_name.clone()) } else { None }, retry: sig.starts_with("retry-after-crash") }).unwrap(),
            note: format!("smallest failing budget of signature; spec {}", p.name),
        };
        let path = save_replay(id, &format!("s{seed}-{k}"), &saved);
        println!("VIOLATION property={id} replay={}", path.display());
        eprintln!("  sig={sig} msg={}", f.msg);
        summary.violations.push((sig, path));
    }
    summary.extra.insert("specs".into(), serde_json::json!(preps.iter().map(|(p, stride)| format!("{}: {} bytes of write traffic in {} calls, final size {}, budget stride {}", p.name, p.total, p.bounds.len(), p.final_size, stride)).collect::<Vec<_>>()));
    summary.extra.insert("exhaustive".into(), serde_json::json!(false));
    let rule = "enumeration of crash points: BasicCreator runs in a child process under an LD_PRELOAD shim that gives the process a byte budget over all writes to regular files of the destination directory (write/pwrite/writev/copy_file_range/sendfile): the call crossing the budget is shortened, the next one kills the process (SIGKILL) or fails with ENOSPC from then on. For each spec (tiny containers in the three packagings with every byte offset 0..total; larger ones with a stride plus every write-call boundary +-1) x {fresh destination, destination holding a previous complete container of other content} x {kill, ENOSPC}. Oracle on the destination directory after the child ended, however it ended: the entry point is absent (only if nothing was there before), byte-identical to the previous file, or opens with Container::new, check()==true and every entry and content equal to the model of the new spec (so every pack file it refers to is complete); with budget >= total the run must succeed. Non-trivial = budget strictly inside the write stream; distinct by (spec, pre-existing, mode, decile of the stream, destination state, how the child ended). Further scenarios: (retry after a crash) 48 crash points per spec, each followed by a fault-free creation of a smaller container at the same destination among whatever the first run left: it must succeed and read as its model; (long and odd names) entry-point names of 150..250 bytes and names holding a backslash, a colon, a space and '%', non-ASCII letters; where the recorded location of a pack living in its own file stops fitting a pack info: creation may refuse, leaving nothing / the previous file, and otherwise the entry point reaches every pack; (rename obstruction) a non-empty directory sits at the final path of an output file other than the entry point: the entry point must not appear as the new container; (unreadable input) every content of the main pack in turn is handed over as a file whose reads fail when the creator comes to it: creation must fail leaving nothing / the previous file, or (content already read) produce the complete container.";
    write_evidence(id, "fault_enumeration", tier, seed, rule, vec!["crash = process termination or write error; the page cache survives (no power-loss claim)".into(), "failures of rename itself are not injected (rustix raw syscalls are invisible to the shim); killing at the adjacent writes yields the same destination states".into(), "leftover temporary files are allowed: the property speaks about the destination path".into()], t0, &summary);
    if !summary.violations.is_empty() {
        return 1;
    }
    if !summary.inconclusive.is_empty() {
        for i in &summary.inconclusive {
            eprintln!("INCONCLUSIVE property={id}: {i}");
        }
        return 2;
    }
    println!("OK property={id} tier={} seed={seed} crash_points={} distinct_nontrivial={} wall_s={:.1}", tier.name(), jobs.len(), summary.merged.nontrivial_keys.len(), t0.elapsed().as_secs_f64());
    0
}
