pub mod c01;
