pub mod c01;
pub mod c02;
pub mod c03;
pub mod c15;
pub mod c16;
pub mod c13;
