//! C13 — all views of a stored content (stream, slice, sub-cut, conversions) agree.

use crate::engine::*;
use crate::gen::*;
use crate::{ensure, fail};
use jubako as jbk;
use jbk::reader::{ByteRegion, ByteSlice, ByteStream};
use proptest::prelude::*;
use serde::{Deserialize, Serialize};
use std::io::Read;

#[derive(Serialize, Deserialize, Clone, Copy, Debug, PartialEq, Eq, Hash)]
pub enum SrcKind {
    Memory,
    File,
    Mmap,
    Lz4,
    Lzma,
    Zstd,
    /// background decoder fed by a harness-owned reader (verif::decoder_region)
    Fed,
}

#[derive(Serialize, Deserialize, Clone, Debug, PartialEq, Eq)]
pub enum Step {
    /// cut(offset, size) of the current view (arguments mapped monotonically inside it)
    Cut { off: u16, size: u16 },
    AsSlice,
    /// ByteSlice -> ByteRegion (From)
    ToRegion,
    /// get_slice(offset, len) on the current view
    GetSlice { off: u16, len: u16 },
    /// stream the current view: through From<ByteRegion> or stream(); read sizes cycle;
    /// `disturb`: between two reads of the stream, other accesses hit the same source (a
    /// get_slice elsewhere in the content, a second stream, the first access to another content)
    Stream {
        via_from: bool,
        reads: Vec<u16>,
        #[serde(default)]
        disturb: bool,
    },
}

#[derive(Serialize, Deserialize, Clone, Debug)]
pub struct Case {
    pub source: SrcKind,
    pub before: Vec<ContentSpec>,
    pub len: u32,
    pub seed: u32,
    pub ent: Entropy,
    pub program: Vec<Step>,
}

pub struct C13;

/// what a disturbed stream may touch between its reads
pub struct Env<'a> {
    root: &'a ByteRegion,
    root_e: &'a [u8],
    pack: Option<&'a jbk::reader::ContentPack>,
    /// (content index, bytes) of the other contents of the pack
    others: &'a [(u32, Vec<u8>)],
}

impl Env<'_> {
    fn disturb(&self, k: usize) -> Result<(), Failure> {
        let n = self.root_e.len();
        match k % 3 {
            0 if n > 0 => {
                let o = (k * 7919) % n;
                let l = ((k * 31) % 64).min(n - o);
                match self.root.get_slice(jbk::Offset::from(o as u64), l) {
                    Ok(s) => ensure!(s.as_ref() == &self.root_e[o..o + l], "disturb-get-slice-bytes", "get_slice({o},{l}) between two stream reads returned foreign bytes"),
                    Err(e) => fail!("disturb-get-slice-error", "get_slice({o},{l}) between two stream reads: {e}"),
                }
            }
            1 => {
                if let (Some(pack), false) = (self.pack, self.others.is_empty()) {
                    let (idx, e) = &self.others[k % self.others.len()];
                    match pack.get_content(jbk::ContentIdx::from(*idx)) {
                        Ok(Some(r)) => {
                            let mut v = vec![];
                            if let Err(err) = r.stream().read_to_end(&mut v) {
                                fail!("disturb-other-content-error", "reading content {idx} between two stream reads: {err}");
                            }
                            ensure!(&v == e, "disturb-other-content-bytes", "content {idx} read between two stream reads returned foreign bytes");
                        }
                        other => fail!("disturb-other-content-error", "content {idx}: {:?}", other.map(|o| o.map(|r| r.size())).map_err(|e| e.to_string())),
                    }
                }
            }
            _ if n > 0 => {
                let mut s2 = self.root.stream();
                let mut b = [0u8; 5];
                match s2.read(&mut b) {
                    Ok(m) => ensure!(b[..m] == self.root_e[..m], "disturb-second-stream-bytes", "a second stream opened between two reads returned foreign bytes"),
                    Err(e) => fail!("disturb-second-stream-error", "{e}"),
                }
            }
            _ => {}
        }
        Ok(())
    }
}

struct St {
    depth_nonzero_cuts: usize,
    conversions: usize,
    evals: u64,
    max_depth: usize,
    streams: usize,
}

fn map_range(off: u16, size: u16, len: usize) -> (usize, usize) {
    let o = pick(off, len + 1);
    let s = pick(size, len - o + 1);
    // favour the full remaining size at the top of the range
    (o, if size == u16::MAX { len - o } else { s })
}

fn check_stream(mut s: ByteStream, e: &[u8], reads: &[u16], how: &str, st: &mut St, env: Option<&Env>) -> Result<(), Failure> {
    st.streams += 1;
    ensure!(s.size() == e.len() as u64, format!("stream-size-{how}"), "stream ({how}): size() = {} for a view of {} bytes", s.size(), e.len());
    ensure!(s.offset() == 0, format!("stream-offset-{how}"), "stream ({how}): initial offset() = {}", s.offset());
    ensure!(
        s.size_left() == e.len() as u64,
        format!("stream-size-left-{how}"),
        "stream ({how}): initial size_left() = {} for a view of {} bytes",
        s.size_left(),
        e.len()
    );
    let mut pos = 0usize;
    let mut out = Vec::with_capacity(e.len());
    let mut k = 0usize;
    let mut spins = 0;
    // one program in three finishes the stream with read_to_end into the buffer that already
    // holds what the first reads returned (Read::read_to_end APPENDS)
    let finish_after = if reads.len() % 3 == 2 { Some(reads.len()) } else { None };
    loop {
        if finish_after == Some(k) && pos < e.len() {
            let before = out.len();
            match s.read_to_end(&mut out) {
                Ok(n) => ensure!(n == e.len() - pos, format!("stream-read-to-end-count-{how}"), "stream ({how}): read_to_end at {pos} reports {n} bytes, {} were left", e.len() - pos),
                Err(err) => fail!(format!("stream-read-error-{how}"), "stream ({how}): read_to_end at {pos}: {err}"),
            }
            ensure!(
                out.len() == e.len() && out[..before] == e[..before],
                format!("stream-read-to-end-appends-{how}"),
                "stream ({how}): read_to_end at {pos} into a buffer holding {before} bytes left {} bytes in it (the {before} bytes already there {})",
                out.len(),
                if out.len() >= before && out[..before] == e[..before] { "kept" } else { "overwritten" }
            );
            ensure!(out == e, format!("stream-bytes-{how}"), "stream ({how}): read_to_end from {pos} returned foreign bytes");
            ensure!(s.size_left() == 0 && s.offset() == s.size(), format!("stream-accounting-{how}"), "stream ({how}): after read_to_end offset {} size_left {} size {}", s.offset(), s.size_left(), s.size());
            st.evals += 1;
            break;
        }
        let req = if reads.is_empty() { 4096 } else { reads[k % reads.len()] as usize };
        k += 1;
        let mut buf = vec![0u8; req];
        let n = match s.read(&mut buf) {
            Ok(n) => n,
            Err(err) => fail!(format!("stream-read-error-{how}"), "stream ({how}): read error at {pos}: {err}"),
        };
        let left = e.len() - pos;
        ensure!(n <= req.min(left), format!("stream-overread-{how}"), "stream ({how}): read({req}) at {pos} returned {n} with {left} bytes left");
        if req > 0 && left > 0 {
            ensure!(n > 0, format!("stream-early-eof-{how}"), "stream ({how}): read({req}) at {pos} returned 0 with {left} bytes left");
        }
        ensure!(buf[..n] == e[pos..pos + n], format!("stream-bytes-{how}"), "stream ({how}): read({req}) at {pos} returned foreign bytes");
        out.extend_from_slice(&buf[..n]);
        pos += n;
        ensure!(s.offset() == pos as u64, format!("stream-cursor-{how}"), "stream ({how}): offset() = {} after {pos} bytes were returned", s.offset());
        ensure!(
            s.offset() + s.size_left() == s.size(),
            format!("stream-accounting-{how}"),
            "stream ({how}): offset {} + size_left {} != size {}",
            s.offset(),
            s.size_left(),
            s.size()
        );
        st.evals += 1;
        if let Some(env) = env {
            env.disturb(k)?;
        }
        if pos == e.len() {
            // at the end: reads return 0
            let mut b2 = [0u8; 16];
            match s.read(&mut b2) {
                Ok(0) => {}
                Ok(n) => fail!(format!("stream-past-end-{how}"), "stream ({how}): read at the end returned {n} bytes"),
                Err(err) => fail!(format!("stream-read-error-{how}"), "stream ({how}): read at the end: {err}"),
            }
            break;
        }
        if n == 0 {
            spins += 1;
            if spins > 64 {
                // only zero-sized requests in the program: finish with a real read size
                let mut rest = vec![];
                if let Err(err) = s.read_to_end(&mut rest) {
                    fail!(format!("stream-read-error-{how}"), "stream ({how}): read_to_end: {err}");
                }
                ensure!(rest == e[pos..], format!("stream-bytes-{how}"), "stream ({how}): read_to_end from {pos} returned foreign bytes");
                break;
            }
        }
    }
    Ok(())
}

fn check_get_slice(got: jbk::Result<std::borrow::Cow<[u8]>>, e: &[u8], o: usize, l: usize, what: &str, st: &mut St) -> Result<(), Failure> {
    match got {
        Ok(s) => {
            ensure!(s.as_ref() == &e[o..o + l], format!("get-slice-bytes-{what}"), "{what}.get_slice({o},{l}) returned foreign bytes (view of {} bytes)", e.len());
        }
        Err(err) => fail!(format!("get-slice-error-{what}"), "{what}.get_slice({o},{l}) inside a view of {} bytes: {err}", e.len()),
    }
    st.evals += 1;
    Ok(())
}

fn interp_region(r: &ByteRegion, e: &[u8], steps: &[Step], depth: usize, st: &mut St, env: &Env) -> Result<(), Failure> {
    ensure!(r.size().into_u64() == e.len() as u64, "region-size", "ByteRegion::size() = {} for a view of {} bytes", r.size().into_u64(), e.len());
    st.max_depth = st.max_depth.max(depth);
    let Some((step, rest)) = steps.split_first() else {
        // leaf: whole view through every accessor
        check_get_slice(r.get_slice(jbk::Offset::zero(), e.len()), e, 0, e.len(), "region", st)?;
        check_stream(r.stream(), e, &[1000], "stream()", st, None)?;
        return Ok(());
    };
    match step {
        Step::Cut { off, size } => {
            let (o, s) = map_range(*off, *size, e.len());
            if o > 0 && depth >= 1 {
                st.depth_nonzero_cuts += 1;
            }
            let sl = r.cut(jbk::Offset::from(o as u64), jbk::Size::from(s as u64));
            interp_slice(&sl, &e[o..o + s], rest, depth + 1, st, env)
        }
        Step::AsSlice => {
            st.conversions += 1;
            interp_slice(&r.as_slice(), e, rest, depth, st, env)
        }
        Step::ToRegion => interp_region(r, e, rest, depth, st, env),
        Step::GetSlice { off, len } => {
            let (o, l) = map_range(*off, *len, e.len());
            check_get_slice(r.get_slice(jbk::Offset::from(o as u64), l), e, o, l, "region", st)?;
            interp_region(r, e, rest, depth, st, env)
        }
        Step::Stream { via_from, reads, disturb } => {
            let envo = if *disturb { Some(env) } else { None };
            if *via_from {
                st.conversions += 1;
                let s: ByteStream = r.clone().into();
                check_stream(s, e, reads, "From<ByteRegion>", st, envo)?;
            } else {
                check_stream(r.stream(), e, reads, "stream()", st, envo)?;
            }
            interp_region(r, e, rest, depth, st, env)
        }
    }
}

fn interp_slice(s: &ByteSlice, e: &[u8], steps: &[Step], depth: usize, st: &mut St, env: &Env) -> Result<(), Failure> {
    ensure!(s.size().into_u64() == e.len() as u64, "slice-size", "ByteSlice::size() = {} for a view of {} bytes", s.size().into_u64(), e.len());
    st.max_depth = st.max_depth.max(depth);
    let Some((step, rest)) = steps.split_first() else {
        check_get_slice(s.get_slice(jbk::Offset::zero(), e.len()), e, 0, e.len(), "slice", st)?;
        check_stream(s.stream(), e, &[777], "slice.stream()", st, None)?;
        return Ok(());
    };
    match step {
        Step::Cut { off, size } => {
            let (o, l) = map_range(*off, *size, e.len());
            if o > 0 && depth >= 1 {
                st.depth_nonzero_cuts += 1;
            }
            let sl = s.cut(jbk::Offset::from(o as u64), jbk::Size::from(l as u64));
            interp_slice(&sl, &e[o..o + l], rest, depth + 1, st, env)
        }
        Step::AsSlice => interp_slice(s, e, rest, depth, st, env),
        Step::ToRegion => {
            st.conversions += 1;
            let r: ByteRegion = s.clone().into();
            interp_region(&r, e, rest, depth, st, env)
        }
        Step::GetSlice { off, len } => {
            let (o, l) = map_range(*off, *len, e.len());
            check_get_slice(s.get_slice(jbk::Offset::from(o as u64), l), e, o, l, "slice", st)?;
            interp_slice(s, e, rest, depth, st, env)
        }
        Step::Stream { via_from, reads, disturb } => {
            let envo = if *disturb { Some(env) } else { None };
            if *via_from {
                st.conversions += 2;
                let r: ByteRegion = s.clone().into();
                let bs: ByteStream = r.into();
                check_stream(bs, e, reads, "From<ByteRegion>", st, envo)?;
            } else {
                check_stream(s.stream(), e, reads, "slice.stream()", st, envo)?;
            }
            interp_slice(s, e, rest, depth, st, env)
        }
    }
}

fn step_strategy() -> BoxedStrategy<Step> {
    let arg = prop_oneof![3 => any::<u16>(), 1 => Just(0u16), 1 => Just(u16::MAX), 1 => 0u16..64];
    prop_oneof![
        6 => (arg.clone(), arg.clone()).prop_map(|(off, size)| Step::Cut { off, size }),
        1 => Just(Step::AsSlice),
        2 => Just(Step::ToRegion),
        2 => (arg.clone(), arg).prop_map(|(off, len)| Step::GetSlice { off, len }),
        3 => (any::<bool>(), prop::collection::vec(prop_oneof![2 => Just(0u16), 2 => Just(1u16), 4 => 1u16..64, 2 => 1000u16..5000, 1 => Just(u16::MAX)], 0..6))
            .prop_map(|(via_from, reads)| Step::Stream { via_from, disturb: reads.len() % 2 == 1, reads }),
    ]
    .boxed()
}

impl Property for C13 {
    type Case = Case;
    const ID: &'static str = "C13";

    fn rule() -> String {
        "proptest-generated view programs over a stored content that is not the first blob of its source: source kinds {memory (Reader from Vec), file (FileSource), moved to memory (read <4 KiB / mmap >=4 KiB, through the verif::in_memory hook), background-decoded lz4/lzma/zstd clusters, harness-fed decoder region}; program = up to 8 steps of cut(offset,size) nested to depth >=3, as_slice, ByteSlice->ByteRegion (From), get_slice(offset,len), and streams obtained through stream() or From<ByteRegion> read with a cycling list of request sizes (0, 1, small, >remaining). Arguments always inside the parent's range. Oracle: slice arithmetic on the known bytes E: every view yields exactly E[a..b] for its composed range, size()==b-a, for streams offset()+size_left()==size() after every read, a read of k>0 bytes with bytes left returns 1..=min(k,left) bytes (short reads are legal), the cursor advances by the returned count, reads at the end return 0. Non-trivial = a nested cut at depth >=2 with non-zero offset together with a conversion between view types; distinct by (source kind, program shape). Content lengths include 65530..65545 and 65536..200000 bytes (views longer than a parser window and than one 64 KiB step).".into()
    }

    fn assumptions() -> Vec<String> {
        vec!["out-of-range cut/get_slice arguments are caller errors and are not generated".into()]
    }

    fn cases(tier: Tier) -> u32 {
        match tier {
            Tier::Quick => 48000,
            Tier::Thorough => 1500000,
        }
    }

    fn strategy(_tier: Tier) -> BoxedStrategy<Case> {
        (
            prop_oneof![
                Just(SrcKind::Memory),
                Just(SrcKind::File),
                Just(SrcKind::Mmap),
                Just(SrcKind::Lz4),
                Just(SrcKind::Lzma),
                Just(SrcKind::Zstd),
                Just(SrcKind::Fed)
            ],
            prop::collection::vec(content_strategy(LenClass::Small, true), 1..4),
            // views longer than a u16 can count (parser windows are capped at 0xFFFF bytes) and longer than one 64 KiB step
            prop_oneof![1 => Just(0u32), 1 => Just(1u32), 12 => 0u32..300, 6 => 3000u32..20000, 2 => 4094u32..4099, 1 => 65530u32..65545, 1 => 65536u32..200000],
            any::<u32>(),
            entropy_strategy(),
            prop::collection::vec(step_strategy(), 1..12),
        )
            .prop_map(|(source, before, len, seed, ent, program)| Case { source, before, len, seed, ent, program })
            .boxed()
    }

    fn required_classes(_tier: Tier) -> Vec<&'static str> {
        vec!["src:Memory", "src:File", "src:Mmap", "src:Lz4", "src:Lzma", "src:Zstd", "src:Fed", "view>65535-bytes", "nested-cut-depth>=3", "via-From<ByteRegion>", "mmap>=4KiB", "content-not-at-0", "disturbed-stream"]
    }

    fn run(case: &Case, ctx: &Ctx) -> CaseResult {
        let mut info = CaseInfo::new();
        info.class(format!("src:{:?}", case.source));
        if case.len > 65535 {
            info.class("view>65535-bytes");
        }
        let e = content_bytes(case.seed, case.len as usize, case.ent);
        let mut st = St { depth_nonzero_cuts: 0, conversions: 0, evals: 0, max_depth: 0, streams: 0 };
        if case.source == SrcKind::Fed {
            // the decoded data is prefix ++ E ++ suffix; the content is a cut of it
            let pre = content_bytes(case.seed ^ 1, 1 + (case.seed % 50) as usize, Entropy::High);
            let mut all = pre.clone();
            all.extend_from_slice(&e);
            all.extend_from_slice(b"tail");
            let total = all.len();
            let region = jbk::verif::decoder_region(std::io::Cursor::new(all), total);
            let r: ByteRegion = region.cut(jbk::Offset::from(pre.len() as u64), jbk::Size::from(e.len() as u64)).into();
            info.class("content-not-at-0");
            let env = Env { root: &r, root_e: &e, pack: None, others: &[] };
            interp_region(&r, &e, &case.program, 0, &mut st, &env)?;
        } else {
            let comp = match case.source {
                SrcKind::Lz4 => Comp::Lz4(3),
                SrcKind::Lzma => Comp::Lzma(1),
                SrcKind::Zstd => Comp::Zstd(3),
                _ => Comp::None,
            };
            let hint = if comp == Comp::None { jbk::creator::CompHint::No } else { jbk::creator::CompHint::Yes };
            let path = ctx.utf8("c13.jbkc");
            let _ = std::fs::remove_file(&path);
            let mut creator = match jbk::creator::ContentPackCreator::new(&path, jbk::PackId::from(1), vendor(), Default::default(), comp.to_jbk()) {
                Ok(c) => c,
                Err(err) => fail!("create-error", "{err}"),
            };
            let before = resolve_contents(&case.before);
            let mut before_len = 0;
            for b in &before {
                before_len += b.len();
                if let Err(err) = creator.add_content(Box::new(std::io::Cursor::new(b.clone())), match hint {
                    jbk::creator::CompHint::No => jbk::creator::CompHint::No,
                    _ => jbk::creator::CompHint::Yes,
                }) {
                    fail!("add-error", "{err}");
                }
            }
            // a non-empty blob in front so that the content does not start at offset 0 of the cluster
            if let Err(err) = creator.add_content(Box::new(std::io::Cursor::new(b"front".to_vec())), match hint {
                jbk::creator::CompHint::No => jbk::creator::CompHint::No,
                _ => jbk::creator::CompHint::Yes,
            }) {
                fail!("add-error", "{err}");
            }
            let _ = before_len;
            info.class("content-not-at-0");
            let addr = match creator.add_content(Box::new(std::io::Cursor::new(e.clone())), hint) {
                Ok(a) => a,
                Err(err) => fail!("add-error", "{err}"),
            };
            match creator.finalize() {
                Ok((f, _)) => drop(f),
                Err(err) => fail!("finalize-error", "{err}"),
            }
            let reader: jbk::Reader = match case.source {
                SrcKind::Memory => std::fs::read(path.as_std_path()).unwrap().into(),
                SrcKind::Mmap => {
                    let size = std::fs::metadata(path.as_std_path()).unwrap().len();
                    if size >= 4096 {
                        info.class("mmap>=4KiB");
                    }
                    let r: jbk::Reader = jbk::FileSource::open(path.as_std_path()).unwrap().into();
                    match jbk::verif::in_memory(&r) {
                        Ok(r) => r,
                        Err(err) => fail!("in-memory-error", "{err}"),
                    }
                }
                _ => jbk::FileSource::open(path.as_std_path()).unwrap().into(),
            };
            let pack = match jbk::reader::ContentPack::new(reader) {
                Ok(p) => p,
                Err(err) => fail!("open-error", "{err}"),
            };
            let r = match pack.get_content(addr.content_id) {
                Ok(Some(r)) => r,
                Ok(None) => fail!("content-none", "content not found"),
                Err(err) => fail!("content-error", "{err}"),
            };
            let others: Vec<(u32, Vec<u8>)> = before.iter().enumerate().map(|(i, b)| (i as u32, b.clone())).collect();
            let env = Env { root: &r, root_e: &e, pack: Some(&pack), others: &others };
            interp_region(&r, &e, &case.program, 0, &mut st, &env)?;
            let _ = std::fs::remove_file(&path);
        }
        if st.max_depth >= 3 {
            info.class("nested-cut-depth>=3");
        }
        if case.program.iter().any(|s| matches!(s, Step::Stream { via_from: true, .. })) {
            info.class("via-From<ByteRegion>");
        }
        if case.program.iter().any(|s| matches!(s, Step::Stream { disturb: true, .. })) {
            info.class("disturbed-stream");
        }
        info.evals = st.evals.max(1);
        info.nontrivial = st.depth_nonzero_cuts > 0 && st.max_depth >= 2 && st.conversions > 0;
        let shape: Vec<u8> = case
            .program
            .iter()
            .map(|s| match s {
                Step::Cut { .. } => 0,
                Step::AsSlice => 1,
                Step::ToRegion => 2,
                Step::GetSlice { .. } => 3,
                Step::Stream { via_from: true, .. } => 4,
                Step::Stream { .. } => 5,
            })
            .collect();
        info.key = hash_str(&format!("{:?}|{:?}|{}", case.source, shape, case.len));
        Ok(info)
    }
}
