//! C01 — stored content reads back byte-identical at the address returned on insertion.

use crate::engine::*;
use crate::gen::*;
use crate::{ensure, fail};
use jubako as jbk;
use proptest::prelude::*;
use serde::{Deserialize, Serialize};
use std::io::Read;
use std::rc::Rc;

#[derive(Serialize, Deserialize, Clone, Debug, PartialEq, Eq)]
pub enum Driver {
    /// bare ContentPackCreator + ContentPack::new
    Bare,
    /// CachedContentAdder around it
    Cached,
    /// BasicCreator in one of the three packagings, read through Container::get_bytes
    Basic(crate::container::Packaging),
}

#[derive(Serialize, Deserialize, Clone, Debug)]
pub struct Case {
    pub driver: Driver,
    pub comp: Comp,
    pub contents: Vec<ContentSpec>,
}

pub struct C01;

fn sanitize(mut c: Case) -> Case {
    // encoder time/memory: strong levels only with little data (DESIGN 2.1)
    let total: u64 = c.contents.iter().map(|x| x.len as u64).sum();
    if total > 64 * 1024 {
        c.comp = c.comp.tame();
    }
    c
}

pub fn driver_strategy() -> BoxedStrategy<Driver> {
    prop_oneof![
        12 => Just(Driver::Bare),
        5 => Just(Driver::Cached),
        1 => Just(Driver::Basic(crate::container::Packaging::OneFile)),
        1 => Just(Driver::Basic(crate::container::Packaging::TwoFiles)),
        1 => Just(Driver::Basic(crate::container::Packaging::NoConcat)),
    ]
    .boxed()
}

/// Read every content of a pack back and compare with the model.
pub fn verify_pack(
    pack: &jbk::reader::ContentPack,
    expected: &[(jbk::ContentAddress, Vec<u8>)],
    expected_count: usize,
) -> Result<(), Failure> {
    use jbk::Pack;
    let count = pack.get_content_count().into_u32() as usize;
    ensure!(
        count == expected_count,
        "content-count",
        "pack reports {count} contents, {expected_count} were inserted"
    );
    for (i, (a, bytes)) in expected.iter().enumerate() {
        match pack.get_content(a.content_id) {
            Ok(Some(region)) => {
                ensure!(
                    region.size().into_u64() == bytes.len() as u64,
                    "content-size",
                    "content #{i} (id {}) has size {} instead of {}",
                    a.content_id.into_u32(),
                    region.size().into_u64(),
                    bytes.len()
                );
                let mut v = Vec::with_capacity(bytes.len());
                if let Err(e) = region.stream().read_to_end(&mut v) {
                    fail!("content-read-error", "content #{i}: read error {e}");
                }
                if &v != bytes {
                    let first = v.iter().zip(bytes.iter()).position(|(a, b)| a != b);
                    fail!(
                        "content-bytes",
                        "content #{i} (id {}) differs: read {} bytes, inserted {}, first difference at {:?}",
                        a.content_id.into_u32(),
                        v.len(),
                        bytes.len(),
                        first
                    );
                }
            }
            Ok(None) => fail!("content-none", "content #{i} (id {}) answers 'no such content'", a.content_id.into_u32()),
            Err(e) => fail!("content-error", "content #{i} (id {}): {e}", a.content_id.into_u32()),
        }
    }
    for past in [count as u32, count as u32 + 1, count as u32 + 4095, u32::MAX] {
        match pack.get_content(jbk::ContentIdx::from(past)) {
            Ok(None) => {}
            Ok(Some(r)) => fail!("past-end-bytes", "address {past} past the count {count} yields {} bytes", r.size().into_u64()),
            Err(e) => fail!("past-end-error", "address {past} past the count {count} yields an error: {e}"),
        }
    }
    match pack.check() {
        Ok(true) => {}
        Ok(false) => fail!("check-false", "freshly created content pack fails its check"),
        Err(e) => fail!("check-error", "freshly created content pack: check error {e}"),
    }
    Ok(())
}

pub fn classify(info: &mut CaseInfo, comp: Comp, seq: &[ContentSpec], bytes: &[Vec<u8>], dec: Option<&crate::indep::ContentPackDec>) {
    info.class(format!("comp:{}", comp.name()));
    info.class(match seq.len() {
        0 => "n:0",
        1 => "n:1",
        2..=19 => "n:few",
        20..=4000 => "n:hundreds",
        _ => "n:>4000",
    });
    if bytes.iter().any(|b| b.is_empty()) {
        info.class("empty-content");
    }
    if seq.iter().any(|c| matches!(c.source, Source::FileRange { .. })) {
        info.class("file-range-source");
    }
    if seq.iter().any(|c| matches!(c.source, Source::FileRange { after: 0, .. })) {
        info.class("file-range-to-end-source");
    }
    if seq.iter().any(|c| matches!(c.source, Source::File)) {
        info.class("file-source");
    }
    if seq.iter().enumerate().any(|(i, c)| c.dup_of.is_some() && i > 0) {
        info.class("duplicate");
    }
    if bytes.iter().any(|b| b.len() >= 4 << 20) {
        info.class("content>=CLUSTER_SIZE");
    }
    if let Some(d) = dec {
        let raw = d.clusters.iter().filter(|c| c.comp == 0).count();
        let compd = d.clusters.len() - raw;
        if d.clusters.len() >= 2 {
            info.class(">=2-clusters");
        }
        if raw > 0 && compd > 0 {
            info.class("raw+compressed-clusters");
        }
        if raw >= 2 && compd >= 2 {
            info.class(">=2-clusters-of-each-kind");
        }
        let widths: std::collections::BTreeSet<u8> = d.clusters.iter().map(|c| c.offset_size).collect();
        if widths.len() > 1 {
            info.class("offset-width-change");
        }
        for w in widths {
            info.class(format!("offset-width:{w}"));
        }
        if d.clusters.iter().any(|c| c.blob_offsets.len() - 1 == 4095) {
            info.class("4095-split");
        }
        if d.clusters.iter().any(|c| c.comp != 0 && c.raw_size > c.data_size) {
            info.class("compressed-larger-than-plain");
        }
        if d.clusters.iter().any(|c| c.data_size == 0) {
            info.class("cluster-data-size-0");
        }
    }
}

impl Property for C01 {
    type Case = Case;
    const ID: &'static str = "C01";

    fn rule() -> String {
        "proptest-generated insertion sequences (lengths around 0/1/255/256/4 KiB/65535/4 MiB, 0..8194 items, 4 entropies, hints, memory/file/file-range sources, duplicates) x compression x level x driver {bare creator, dedup adder, BasicCreator x 3 packagings}; oracle: harness-held model of inserted bytes vs. fresh reader, past-the-end addresses, check(), independent decoder. Non-trivial = >=2 clusters, or raw and compressed clusters together, or an empty content, or clusters of different offset widths, or a file-range source, or a 4095-blob cluster; distinct by (classes, compression, driver, multiset of lengths). Sources include file ranges given without a size (to the end of the file) and file-backed contents placed where a cluster opens (around the 4095th content of a same-hint run).".into()
    }

    fn assumptions() -> Vec<String> {
        vec![
            "content bytes are derived deterministically from (seed,len,entropy); the model never reads jubako state".into(),
            "lzma level >= 6 and |zstd level| > 19 only with < 64 KiB of data (encoder cost)".into(),
        ]
    }

    fn cases(tier: Tier) -> u32 {
        match tier {
            Tier::Quick => 2560,
            Tier::Thorough => 100000,
        }
    }

    fn strategy(tier: Tier) -> BoxedStrategy<Case> {
        (driver_strategy(), comp_strategy(), content_seq_strategy(tier))
            .prop_map(|(driver, comp, contents)| sanitize(Case { driver, comp, contents }))
            .boxed()
    }

    fn fixed_cases(tier: Tier) -> Vec<Case> {
        // boundary matrix: one content of a boundary length at first/middle/last position
        let mut lens: Vec<u32> = vec![0, 1, 2, 250, 253, 254, 255, 256, 257, 4095, 4096, 4097, 65533, 65534, 65535, 65536, 65537];
        if tier == Tier::Thorough {
            lens.extend_from_slice(&[127, 128, 1023, 1024, 8191, 8192, 8193, 32767, 32768, (1 << 24) - 1, 1 << 24, (1 << 24) + 1, (1 << 22) - 1, 1 << 22, (1 << 22) + 1]);
        }
        let comps = [Comp::None, Comp::Lz4(3), Comp::Lzma(2), Comp::Zstd(5)];
        let hints = [Hint::Yes, Hint::No, Hint::Detect];
        let sources = [Source::Mem, Source::File, Source::FileRange { before: 7, after: 3 }, Source::FileRange { before: 513, after: 0 }];
        let mut out = vec![];
        let mut k = 0u32;
        for &len in &lens {
            for &comp in &comps {
                for &hint in &hints {
                    // full product of sources/positions/entropies only in the thorough tier
                    let variants: Vec<(Source, usize, Entropy)> = if tier == Tier::Thorough && len < (1 << 22) {
                        let mut v = vec![];
                        for s in sources {
                            for pos in 0..3 {
                                v.push((s, pos, if (k + pos as u32) % 2 == 0 { Entropy::High } else { Entropy::Text }));
                            }
                        }
                        v
                    } else {
                        vec![(sources[(k % 4) as usize], (k % 3) as usize, if k % 2 == 0 { Entropy::High } else { Entropy::Low })]
                    };
                    for (source, pos, ent) in variants {
                        k += 1;
                        let filler = |seed: u32| ContentSpec {
                            len: 10 + seed % 7,
                            ent: Entropy::Text,
                            seed,
                            hint,
                            source: Source::Mem,
                            dup_of: None,
                            flip: None,
                        };
                        let target = ContentSpec { len, ent, seed: k, hint, source, dup_of: None, flip: None };
                        let contents = match pos {
                            0 => vec![target, filler(k + 1), filler(k + 2)],
                            1 => vec![filler(k + 1), target, filler(k + 2)],
                            _ => vec![filler(k + 1), filler(k + 2), target],
                        };
                        out.push(Case { driver: Driver::Bare, comp, contents });
                    }
                }
            }
        }
        // more clusters than the reader keeps open (its cluster cache holds 40): 45 full raw clusters
        // of 4095 tiny contents, every content read back in order through one ContentPack
        if tier == Tier::Quick {
            let contents = (0..45 * 4095 + 10u32).map(|i| ContentSpec { len: i % 2, ent: Entropy::Text, seed: i, hint: Hint::No, source: Source::Mem, dup_of: None, flip: None }).collect();
            out.push(Case { driver: Driver::Bare, comp: Comp::None, contents });
        }
        // one content of 16 MiB or more in a compressed cluster of its own (a cluster is only closed
        // at 4 MiB when it is not empty): the cluster tail then needs 4-byte sizes
        if tier == Tier::Quick {
            for (i, comp) in [Comp::Lz4(1), Comp::Zstd(1), Comp::Lzma(1)].into_iter().enumerate() {
                for (j, len) in [1u32 << 24, (1 << 24) + 3].into_iter().enumerate() {
                    let target = ContentSpec { len, ent: Entropy::Low, seed: 16 + (i * 2 + j) as u32, hint: if j == 0 { Hint::Yes } else { Hint::Detect }, source: if i == 1 { Source::File } else { Source::Mem }, dup_of: None, flip: None };
                    let small = ContentSpec { len: 9, ent: Entropy::Text, seed: 5, hint: Hint::Yes, source: Source::Mem, dup_of: None, flip: None };
                    out.push(Case { driver: Driver::Bare, comp, contents: vec![small.clone(), target, small] });
                }
            }
        }
        out
    }

    fn required_classes(_tier: Tier) -> Vec<&'static str> {
        vec![
            ">=2-clusters",
            "raw+compressed-clusters",
            "empty-content",
            "offset-width-change",
            "file-range-source",
            "file-range-to-end-source",
            "4095-split",
            "duplicate",
            "comp:none",
            "comp:lz4",
            "comp:lzma",
            "comp:zstd",
            "driver:bare",
            "driver:cached",
            "driver:basic",
        ]
    }

    fn run(case: &Case, ctx: &Ctx) -> CaseResult {
        let bytes = resolve_contents(&case.contents);
        let mut info = CaseInfo::new();
        let mut expected: Vec<(jbk::ContentAddress, Vec<u8>)> = Vec::with_capacity(bytes.len());
        let dec;
        match &case.driver {
            Driver::Bare | Driver::Cached => {
                let path = ctx.utf8("c01.jbkc");
                let _ = std::fs::remove_file(&path);
                let creator = jbk::creator::ContentPackCreator::new(
                    &path,
                    jbk::PackId::from(1),
                    vendor(),
                    Default::default(),
                    case.comp.to_jbk(),
                );
                let creator = match creator {
                    Ok(c) => c,
                    Err(e) => fail!("create-error", "ContentPackCreator::new: {e}"),
                };
                let cached = case.driver == Driver::Cached;
                info.class(if cached { "driver:cached" } else { "driver:bare" });
                let mut add = |adder: &mut dyn jbk::creator::ContentAdder| -> Result<(), Failure> {
                    for (c, b) in case.contents.iter().zip(bytes.iter()) {
                        match adder.add_content(make_reader(b, c.source), c.hint.to_jbk()) {
                            Ok(a) => expected.push((a, b.clone())),
                            Err(e) => fail!("add-error", "add_content failed: {e}"),
                        }
                    }
                    Ok(())
                };
                let fin = if cached {
                    let mut adder = jbk::creator::CachedContentAdder::new(creator, Rc::new(()));
                    add(&mut adder)?;
                    adder.into_inner().finalize()
                } else {
                    let mut creator = creator;
                    add(&mut creator)?;
                    creator.finalize()
                };
                match fin {
                    Ok((file, _data)) => drop(file),
                    Err(e) => fail!("finalize-error", "finalize failed: {e}"),
                }
                // expected number of contents
                let expected_count = if cached {
                    let distinct: std::collections::HashSet<&Vec<u8>> = bytes.iter().collect();
                    // same bytes <=> same address
                    for i in 0..expected.len() {
                        for j in (i + 1)..expected.len().min(i + 50) {
                            let same_bytes = expected[i].1 == expected[j].1;
                            let same_addr = expected[i].0 == expected[j].0;
                            ensure!(
                                same_bytes == same_addr,
                                "dedup-address",
                                "dedup adder: contents #{i} and #{j}: equal bytes = {same_bytes}, equal address = {same_addr}"
                            );
                        }
                    }
                    distinct.len()
                } else {
                    for (i, (a, _)) in expected.iter().enumerate() {
                        ensure!(
                            a.content_id.into_u32() as usize == i && a.pack_id.into_u16() == 1,
                            "address-sequence",
                            "insertion #{i} returned address {:?}",
                            a
                        );
                    }
                    bytes.len()
                };
                // fresh reader state
                let reader: jbk::Reader = match jbk::FileSource::open(path.as_std_path()) {
                    Ok(f) => f.into(),
                    Err(e) => fail!("open-error", "cannot open created pack: {e}"),
                };
                let pack = match jbk::reader::ContentPack::new(reader) {
                    Ok(p) => p,
                    Err(e) => fail!("open-error", "ContentPack::new on created pack: {e}"),
                };
                verify_pack(&pack, &expected, expected_count)?;
                drop(pack);
                // independent decoder agrees (bytes at the same (cluster, blob) pairs)
                let data = std::fs::read(path.as_std_path()).unwrap();
                let fd = match crate::indep::decode_file(&data) {
                    Ok(fd) => fd,
                    Err(e) => fail!("indep-layout", "independent decoder rejects the pack: {e}"),
                };
                let crate::indep::PackBody::Content(cp) = &fd.packs[0].body else {
                    fail!("indep-layout", "not a content pack");
                };
                // the full independent decode of large packs is sampled (cost), small ones always
                if data.len() < 1 << 20 {
                    let contents = match crate::indep::content_pack_contents(&data, cp) {
                        Ok(c) => c,
                        Err(e) => fail!("indep-content", "independent decoder cannot decode contents: {e}"),
                    };
                    for (i, (a, b)) in expected.iter().enumerate() {
                        ensure!(
                            &contents[a.content_id.into_u32() as usize] == b,
                            "indep-content",
                            "independent decoder: content #{i} differs from the inserted bytes"
                        );
                    }
                }
                dec = Some(cp.clone());
                let _ = std::fs::remove_file(&path);
            }
            Driver::Basic(packaging) => {
                info.class("driver:basic");
                info.class(format!("packaging:{:?}", packaging));
                let spec = crate::container::ContainerSpec {
                    packaging: *packaging,
                    comp: case.comp,
                    contents: case.contents.clone(),
                    extra_packs: vec![],
                    dedup: false,
                    dir: crate::dirgen::DirSpec::addresses_only(),
                };
                let dir = ctx.subdir("c01basic");
                let built = crate::container::build(&spec, &dir, "a.jbk", None)?;
                let c = match jbk::reader::Container::new(&built.main_path) {
                    Ok(c) => c,
                    Err(e) => fail!("open-error", "Container::new on created container: {e}"),
                };
                for (i, (a, b)) in built.model.contents.iter().enumerate() {
                    let got = crate::container::read_content(&c, *a);
                    match got {
                        crate::container::ContentRead::Bytes(v) => {
                            ensure!(&v == b, "content-bytes", "container content #{i} ({a:?}) differs: {} vs {} bytes", v.len(), b.len());
                        }
                        other => fail!("content-unreadable", "container content #{i} ({a:?}): {}", other.describe()),
                    }
                }
                match c.get_bytes(jbk::ContentAddress::new(1.into(), (built.model.contents.len() as u32).into())) {
                    Ok(Some(jbk::reader::MayMissPack::FOUND(None))) => {}
                    Ok(other) => fail!("past-end-bytes", "address past the count: {}", crate::container::describe_bytes(&other)),
                    Err(e) => fail!("past-end-error", "address past the count: error {e}"),
                }
                match c.check() {
                    Ok(true) => {}
                    other => fail!("check-false", "created container check: {other:?}"),
                }
                dec = None;
            }
        }
        classify(&mut info, case.comp, &case.contents, &bytes, dec.as_ref());
        let nt = [
            ">=2-clusters",
            "raw+compressed-clusters",
            "empty-content",
            "offset-width-change",
            "file-range-source",
            "file-range-to-end-source",
            "4095-split",
        ];
        info.nontrivial = info.classes.iter().any(|c| nt.contains(&c.as_str()));
        let mut lens: Vec<usize> = bytes.iter().map(|b| b.len()).collect();
        lens.sort();
        let mut cls = info.classes.clone();
        cls.sort();
        info.key = hash_str(&format!("{:?}|{:?}|{:?}|{:?}", cls, case.comp, case.driver, lens));
        Ok(info)
    }
}
