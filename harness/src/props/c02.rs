//! C02 — entries read back with exactly the property values they were written with.

use crate::container::*;
use crate::dirgen::*;
use crate::engine::*;
use crate::gen::*;
use crate::{ensure, fail};
use jubako as jbk;
use proptest::prelude::*;
use serde::{Deserialize, Serialize};

#[derive(Serialize, Deserialize, Clone, Debug)]
pub struct Case {
    /// None: bare DirectoryPackCreator + DirectoryPack::new; Some: through BasicCreator/Container
    pub packaging: Option<Packaging>,
    pub dir: DirSpec,
}

pub struct C02;

/// Shared by C02 / C03 / C15: create the directory pack of `case`, read it back with the real
/// reader and with the independent decoder, compare both with the model.
pub fn run_dir_case(case: &Case, ctx: &Ctx, info: &mut CaseInfo) -> Result<(DirModel, Option<std::path::PathBuf>), Failure> {
    let model = build_model(&case.dir, &[]);
    for c in shape_classes(&model, &case.dir) {
        info.class(c);
    }
    let refuse_ok = unrepresentable_tail(&model);
    // an array longer than 0xFFFFFF bytes cannot be represented (3-byte length field): creation has
    // to refuse it (today: an assertion), or to store it unaltered - never something else
    let oversized = model.stores.iter().any(|s| s.entries.iter().any(|e| e.vals.values().any(|v| matches!(v, crate::indep::DVal::A(a) if a.len() > 0xFF_FFFF))));
    match case.packaging {
        None => {
            info.class("driver:bare");
            let path = ctx.path("d.jbkd");
            let _ = std::fs::remove_file(&path);
            let created = if oversized {
                info.class("oversized-array");
                match std::panic::catch_unwind(std::panic::AssertUnwindSafe(|| create_directory_pack(&model, &path))) {
                    Ok(r) => r,
                    Err(_) => {
                        let _ = take_panic();
                        info.class("creation-refused-unrepresentable");
                        return Ok((model, None));
                    }
                }
            } else {
                create_directory_pack(&model, &path)
            };
            let bounds = match created {
                Err(_) if oversized => {
                    info.class("creation-refused-unrepresentable");
                    return Ok((model, None));
                }
                Ok(b) => b,
                Err(f) if refuse_ok && f.sig == "dir-write-error" => {
                    info.class("creation-refused-unrepresentable");
                    return Ok((model, None));
                }
                Err(f) => return Err(f),
            };
            ensure!(
                !refuse_ok,
                "unrepresentable-stored",
                "an indexed value store whose tail exceeds 65535 bytes was written without error"
            );
            check_bounds(&model, &bounds)?;
            let dp = match open_directory_pack(&path) {
                Ok(d) => d,
                Err(e) => fail!("dir-unreadable", "created directory pack cannot be opened: {e}"),
            };
            let mut evals = 0;
            for sm in &model.stores {
                evals += verify_store_against_model(&dp, sm, "")?;
            }
            match jbk::Pack::check(dp.as_ref()) {
                Ok(true) => {}
                other => fail!("check-false", "created directory pack check: {other:?}"),
            }
            drop(dp);
            let data = std::fs::read(&path).unwrap();
            let fd = match crate::indep::decode_file(&data) {
                Ok(f) => f,
                Err(e) => fail!("indep-layout", "independent decoder rejects the directory pack: {e}"),
            };
            let crate::indep::PackBody::Directory(dd) = &fd.packs[0].body else {
                fail!("indep-layout", "not a directory pack");
            };
            evals += verify_indep_dir(&data, dd, &model)?;
            info.evals = evals.max(1);
            Ok((model, Some(path)))
        }
        Some(packaging) => {
            info.class("driver:basic");
            let spec = ContainerSpec {
                packaging,
                comp: Comp::None,
                contents: vec![],
                extra_packs: vec![],
                dedup: false,
                dir: case.dir.clone(),
            };
            let dir = ctx.subdir("c02basic");
            let built = match build(&spec, &dir, "a.jbk", None) {
                Ok(b) => b,
                Err(f) if refuse_ok && f.sig == "finalize-error" => {
                    info.class("creation-refused-unrepresentable");
                    return Ok((model, None));
                }
                Err(f) => return Err(f),
            };
            ensure!(
                !refuse_ok,
                "unrepresentable-stored",
                "an indexed value store whose tail exceeds 65535 bytes was written without error"
            );
            check_bounds(&built.model.dir, &built.bounds)?;
            let c = match jbk::reader::Container::new(&built.main_path) {
                Ok(c) => c,
                Err(e) => fail!("dir-unreadable", "created container cannot be opened: {e}"),
            };
            info.evals = verify_container(&c, &built.model, "")?.max(1);
            Ok((model, None))
        }
    }
}

pub fn packaging_opt() -> BoxedStrategy<Option<Packaging>> {
    prop_oneof![9 => Just(None), 1 => packaging_strategy().prop_map(Some)].boxed()
}

pub fn big_indexed_store_case(n: u32) -> Case {
    // n distinct values in an indexed store (prefix 0 => IndirectArray)
    let entries = (0..n)
        .map(|i| RawEntry {
            variant: 0,
            vals: vec![RawVal { x: i as u64, arr: ArrSpec { base: 10, cut: i, tweak: 0 } }; 2],
        })
        .collect();
    Case {
        packaging: None,
        dir: DirSpec {
            vstores: vec![StoreKind::Indexed],
            estores: vec![EStoreSpec {
                common: vec![PropSpec { kind: PKind::Array { fixed: 0, store: 0 }, constant: false }, PropSpec { kind: PKind::UInt, constant: false }],
                variants: vec![],
                sort: vec![],
                entries,
                windows: vec![Win::Whole],
            }],
            linked: false,
            index_meta: false,
        },
    }
}

/// one array of exactly 2^24 bytes (the first length a 3-byte length field cannot say) between two
/// ordinary entries, in an Array column with an inline prefix
pub fn oversized_array_case(kind: StoreKind, fixed: u8) -> Case {
    let rv = |x: u64, base: u8, cut: u32| RawVal { x, arr: ArrSpec { base, cut, tweak: 0 } };
    Case {
        packaging: None,
        dir: DirSpec {
            vstores: vec![kind],
            estores: vec![EStoreSpec {
                common: vec![PropSpec { kind: PKind::Array { fixed, store: 0 }, constant: false }, PropSpec { kind: PKind::UInt, constant: false }],
                variants: vec![],
                sort: vec![],
                entries: vec![
                    RawEntry { variant: 0, vals: vec![rv(0, 10, 1), rv(1000, 0, 0)] },
                    RawEntry { variant: 0, vals: vec![rv(0, 11, 0), rv(7, 0, 0)] },
                    RawEntry { variant: 0, vals: vec![rv(0, 10, 2), rv(1001, 0, 0)] },
                ],
                windows: vec![Win::Whole],
            }],
            linked: false,
            index_meta: false,
        },
    }
}

/// more than 1024 distinct values in a store (the parallel duplicate search of the indexed store),
/// followed by entries duplicating early, middle and late values
pub fn store_with_late_duplicates(kind: StoreKind, fixed: u8, n: u32) -> Case {
    let rv = |i: u32| RawVal { x: i as u64, arr: ArrSpec { base: 10, cut: i, tweak: 0 } };
    let mut entries: Vec<RawEntry> = (0..n).map(|i| RawEntry { variant: 0, vals: vec![rv(i), rv(i)] }).collect();
    for k in 0..200u32 {
        let target = match k % 4 {
            0 => k % 1024,                          // early
            1 => 1024 + (k * 7) % (n - 1024),       // beyond the first chunk
            2 => n - 1 - (k % 50),                  // late
            _ => 1023 + (k % 3),                    // around the chunk boundary
        };
        entries.push(RawEntry { variant: 0, vals: vec![rv(target), rv(n + k)] });
    }
    Case {
        packaging: None,
        dir: DirSpec {
            vstores: vec![kind],
            estores: vec![EStoreSpec {
                common: vec![PropSpec { kind: PKind::Array { fixed, store: 0 }, constant: false }, PropSpec { kind: PKind::UInt, constant: false }],
                variants: vec![],
                sort: vec![],
                entries,
                windows: vec![Win::Whole, Win::Suffix(60000)],
            }],
            linked: false,
            index_meta: true,
        },
    }
}

impl Property for C02 {
    type Case = Case;
    const ID: &'static str = "C02";

    fn rule() -> String {
        "proptest-generated directory specs: 0..6 common properties, 0..4 variants x 0..4 properties (unequal sizes, empty variants, constant columns anywhere), kinds uint/sint/array(prefix 0..31, plain or indexed store, shared stores)/content address, integers at every byte-width boundary with both signs, arrays at length-width boundaries (0, 255/256, 65535/65536), 0..600 entries (thousands in the thorough tier), 1-2 entry stores, 1-4 index windows each; driver bare DirectoryPackCreator (90%) or BasicCreator (10%). Oracle: model of the written values vs. real reader (typed, per window, nothing beyond the window, foreign-variant properties answer None) and vs. the independent decoder. Non-trivial = >=2 entries and (variants, or a constant column, or a shared store, or a negative signed value, or a sub-range window); distinct by (shape classes, schema, entry count). The variant of every entry is also read through the typed path (Layout::variant_id_builder with reader types knowing only {A,C}, {B,D,E}, {E}: an unknown variant must read as None, a known one as itself); Index::is_empty agrees with the declared count; half of the directories give every index non-default free data and key, which the independent decoder must find at their documented bytes. Every property of (a spread of) the entries is read a second time through its specialised builder (IntProperty, SignedProperty, ArrayProperty, ContentProperty on EntryStore::get_entry_reader), the three other builder kinds having to refuse the column; every second index window is created with a lazy offset (the handle of the entry the model places first in it).".into()
    }

    fn assumptions() -> Vec<String> {
        vec![
            "sorted stores get pairwise distinct key tuples (duplicates dropped while building the entry list; counted as class dropped-duplicate-keys)".into(),
            "the only in-range input the format cannot represent is an indexed value store whose tail exceeds 65535 bytes: creation must refuse it (class creation-refused-unrepresentable)".into(),
        ]
    }

    fn cases(tier: Tier) -> u32 {
        match tier {
            Tier::Quick => 3200,
            Tier::Thorough => 400000,
        }
    }

    fn strategy(tier: Tier) -> BoxedStrategy<Case> {
        let dir = match tier {
            Tier::Quick => prop_oneof![
                12 => dir_strategy(SizeClass::Small, SortMode::Sometimes, false, false),
                2 => dir_strategy(SizeClass::Medium, SortMode::Sometimes, false, false),
            ]
            .boxed(),
            Tier::Thorough => prop_oneof![
                120 => dir_strategy(SizeClass::Small, SortMode::Sometimes, false, false),
                20 => dir_strategy(SizeClass::Medium, SortMode::Sometimes, false, false),
                1 => dir_strategy(SizeClass::Large, SortMode::Sometimes, false, false),
            ]
            .boxed(),
        };
        (packaging_opt(), dir).prop_map(|(packaging, dir)| Case { packaging, dir }).boxed()
    }

    fn fixed_cases(tier: Tier) -> Vec<Case> {
        let mut v = vec![
            // key-width boundaries of an indexed store: 255/256/257 values, and the tail limit
            big_indexed_store_case(255),
            big_indexed_store_case(256),
            big_indexed_store_case(257),
            big_indexed_store_case(21840),
            big_indexed_store_case(21846),
            store_with_late_duplicates(StoreKind::Indexed, 0, 1300),
            store_with_late_duplicates(StoreKind::Indexed, 2, 2100),
            store_with_late_duplicates(StoreKind::Plain, 0, 1300),
            store_with_late_duplicates(StoreKind::Plain, 3, 2100),
            oversized_array_case(StoreKind::Plain, 2),
            oversized_array_case(StoreKind::Indexed, 5),
        ];
        if tier == Tier::Thorough {
            v.push(big_indexed_store_case(65535));
            v.push(big_indexed_store_case(65537));
            v.push(big_indexed_store_case(30000));
        }
        v
    }

    fn required_classes(_tier: Tier) -> Vec<&'static str> {
        vec![
            "variants",
            "empty-variant",
            "constant-column",
            "variant-ends-with-constant-int",
            "shared-value-store",
            "negative-signed",
            "sub-window",
            "empty-array",
            "array>255",
            "array>65535",
            "kind:array-prefix0",
            "vstore:Plain",
            "vstore:Indexed",
            "driver:basic",
            "two-entry-stores",
            "creation-refused-unrepresentable",
        ]
    }

    fn run(case: &Case, ctx: &Ctx) -> CaseResult {
        let mut info = CaseInfo::new();
        let (model, _) = run_dir_case(case, ctx, &mut info)?;
        let n: usize = model.stores.iter().map(|s| s.entries.len()).max().unwrap_or(0);
        let nt = ["variants", "constant-column", "shared-value-store", "negative-signed", "sub-window"];
        info.nontrivial = n >= 2 && info.classes.iter().any(|c| nt.contains(&c.as_str()));
        let schema_sig: Vec<String> = model
            .stores
            .iter()
            .map(|s| format!("{:?}|{:?}|{:?}|{}", s.schema.common.iter().map(|p| (p.kind, p.constant)).collect::<Vec<_>>(), s.schema.variants.iter().map(|v| v.iter().map(|p| (p.kind, p.constant)).collect::<Vec<_>>()).collect::<Vec<_>>(), s.schema.sort, s.entries.len()))
            .collect();
        info.key = hash_str(&format!("{:?}|{:?}", info.classes, schema_sig));
        Ok(info)
    }
}
