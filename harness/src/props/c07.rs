//! C07 — concurrent readers of one container always get exactly the stored bytes.
//!
//! S1: real containers with more compressed clusters than cache slots (40) and than pool
//!     threads (8); 2-16 reader threads run generated op lists under a seeded perturbation
//!     plan applied at the cfg(jubako_verif) schedule points.
//! S2: the real SeekableDecoder/SyncVec code under a harness-owned schedule: a producer
//!     releases chunk k only when told; all interleavings of {release chunk 1..3} and
//!     {start reader 1..3} are enumerated for a set of ranges around the chunk boundaries.

use crate::engine::*;
use crate::gen::*;
use crate::{ensure, fail};
use jubako as jbk;
use proptest::prelude::*;
use serde::{Deserialize, Serialize};
use std::collections::BTreeMap;
use std::io::Read;
use std::sync::atomic::{AtomicBool, AtomicU64, Ordering};
use std::sync::{Arc, Condvar, Mutex, OnceLock};
use std::time::{Duration, Instant};

pub const BLOBS_PER_CLUSTER: u32 = 4095;
pub const CHUNK: usize = 4096;

// ---------------------------------------------------------------------------------------
// hook plumbing (one hook per process)

#[derive(Clone, Debug)]
pub struct Event {
    pub site: &'static str,
    pub a: u64,
    pub b: u64,
    pub thread: u64,
}

pub struct HookState {
    /// perturbation plan of the running case (S1)
    pub plan_seed: AtomicU64,
    pub plan_strength: AtomicU64, // 0 = off
    pub record: AtomicBool,
    pub events: Mutex<Vec<Event>>,
    /// S2: last published length per total size, and readers that entered the wait
    pub published: Mutex<BTreeMap<u64, u64>>,
    pub waits: Mutex<u64>,
    pub cv: Condvar,
}

static HOOK: OnceLock<Arc<HookState>> = OnceLock::new();

fn thread_num() -> u64 {
    thread_local! { static N: u64 = { static C: AtomicU64 = AtomicU64::new(1); C.fetch_add(1, Ordering::Relaxed) }; }
    N.with(|n| *n)
}

pub fn hook_state() -> Arc<HookState> {
    HOOK.get_or_init(|| {
        let st = Arc::new(HookState {
            plan_seed: AtomicU64::new(0),
            plan_strength: AtomicU64::new(0),
            record: AtomicBool::new(false),
            events: Mutex::new(vec![]),
            published: Mutex::new(BTreeMap::new()),
            waits: Mutex::new(0),
            cv: Condvar::new(),
        });
        let st2 = Arc::clone(&st);
        jbk::verif::set_hook(Box::new(move |site, a, b| {
            let st = &st2;
            let t = thread_num();
            if st.record.load(Ordering::Relaxed) {
                st.events.lock().unwrap().push(Event { site, a, b, thread: t });
            }
            match site {
                "dec.post_publish" => {
                    let mut p = st.published.lock().unwrap();
                    p.insert(b, a);
                    st.cv.notify_all();
                }
                "rd.wait" => {
                    let mut w = st.waits.lock().unwrap();
                    *w += 1;
                    st.cv.notify_all();
                }
                _ => {}
            }
            let strength = st.plan_strength.load(Ordering::Relaxed);
            if strength > 0 {
                static N: AtomicU64 = AtomicU64::new(0);
                let n = N.fetch_add(1, Ordering::Relaxed);
                let h = splitmix(st.plan_seed.load(Ordering::Relaxed) ^ hash_str(site) ^ (t << 32) ^ n);
                // per-site bias: publication points and wake-ups get the long delays
                let hot = matches!(site, "dec.pre_publish" | "dec.post_publish" | "rd.woke" | "cl.build.locked" | "cp.cluster.locked");
                let r = h % 64;
                let us = match (r, hot) {
                    (0..=39, false) | (0..=23, true) => 0,
                    (40..=51, false) | (24..=35, true) => 1,
                    (52..=59, false) | (36..=51, true) => 20,
                    (60..=62, false) | (52..=60, true) => 200,
                    _ => 2000,
                };
                let us = us * strength.min(3) / if us == 1 { strength.min(3) } else { 1 };
                match us {
                    0 => {}
                    1 => std::thread::yield_now(),
                    n => std::thread::sleep(Duration::from_micros(n)),
                }
            }
        }));
        st
    })
    .clone()
}

// ---------------------------------------------------------------------------------------
// S1 containers (built once per worker process and compression)

pub fn blob_len(i: u32) -> usize {
    ((i as usize * 7) % 41) + if i % BLOBS_PER_CLUSTER == 0 { (i / BLOBS_PER_CLUSTER) as usize * 3 } else { 0 }
}

pub fn blob_bytes(i: u32) -> Vec<u8> {
    content_bytes(i.wrapping_mul(2654435761), blob_len(i), if i % 3 == 0 { Entropy::High } else { Entropy::Text })
}

pub struct S1Pack {
    pub path: std::path::PathBuf,
    pub nclusters: u32,
    pub ncontents: u32,
}

/// built once per worker process and (compression, cluster count), inside the worker's scratch dir
pub fn s1_pack(ctx: &Ctx, comp: Comp, nclusters: u32) -> Result<S1Pack, Failure> {
    let path = ctx.path(&format!("c07-{}-{nclusters}.jbkc", comp.name()));
    let ncontents = nclusters * BLOBS_PER_CLUSTER;
    if path.exists() {
        return Ok(S1Pack { path, nclusters, ncontents });
    }
    let tmp = ctx.path("c07-building.jbkc");
    let upath = jbk::Utf8PathBuf::from_path_buf(tmp.clone()).unwrap();
    let mut creator = match jbk::creator::ContentPackCreator::new(&upath, jbk::PackId::from(1), vendor(), Default::default(), comp.to_jbk()) {
        Ok(c) => c,
        Err(e) => fail!("create-error", "{e}"),
    };
    for i in 0..ncontents {
        if let Err(e) = creator.add_content(Box::new(std::io::Cursor::new(blob_bytes(i))), jbk::creator::CompHint::Yes) {
            fail!("add-error", "{e}");
        }
    }
    match creator.finalize() {
        Ok((f, _)) => drop(f),
        Err(e) => fail!("finalize-error", "{e}"),
    }
    std::fs::rename(&tmp, &path).unwrap();
    Ok(S1Pack { path, nclusters, ncontents })
}

// ---------------------------------------------------------------------------------------
// cases

#[derive(Serialize, Deserialize, Clone, Debug, PartialEq, Eq)]
pub enum ReadKind {
    Whole,
    Slice { off: u16, len: u16 },
    Stream { reads: Vec<u16> },
    CutCut { off1: u16, len1: u16, off2: u16, len2: u16 },
    /// take the region now, read it only after `later` further ops of this thread (its cluster
    /// may have been evicted from the cache and re-decoded by others meanwhile)
    Hold { later: u8 },
}

#[derive(Serialize, Deserialize, Clone, Debug, PartialEq, Eq)]
pub struct Op {
    /// which content: (cluster selector, blob selector), mapped monotonically
    pub cluster: u16,
    pub blob: u16,
    pub kind: ReadKind,
}

#[derive(Serialize, Deserialize, Clone, Debug, PartialEq, Eq)]
pub enum Pattern {
    /// every thread runs its own op list
    Independent,
    /// all threads run thread 0's list (same contents at the same time)
    Same,
    /// threads sweep all clusters (forces evictions while others hold regions)
    Sweep,
}

#[derive(Serialize, Deserialize, Clone, Debug, PartialEq, Eq)]
pub enum Step {
    Release,
    Start(u8),
}

#[derive(Serialize, Deserialize, Clone, Debug)]
pub enum Case {
    S1 { comp: Comp, threads: u8, pattern: Pattern, ops: Vec<Vec<Op>>, plan_seed: u32, strength: u8 },
    /// ranges[r] = (begin, end) of reader r; schedule = interleaving of releases and starts
    S2 { chunks: u8, last_chunk_len: u16, ranges: Vec<(u32, u32)>, schedule: Vec<Step>, via_stream: bool },
    /// the readers are tasks of a rayon thread pool (`pool_threads` 0: rayon's global pool), each
    /// asking first for a cluster nobody has decoded yet: `tasks` readers over `pool_threads`
    /// workers, all of which may be waiting for a background decoder at the same time
    S3 { comp: Comp, pool_threads: u8, tasks: u8, seed: u32 },
    /// the directory side of an opened container: `threads` threads, released together, make the
    /// FIRST access to the entry stores and value stores of a freshly opened container (the store
    /// caches are filled under their eyes) and read entries; `rounds` fresh containers per case
    S4 { threads: u8, rounds: u8, big: bool, seed: u32 },
    /// hammer: `threads` threads ask one opened (uncompressed, so nothing slows them down) pack for
    /// tiny contents `kilo_reads` thousand times each, short runs inside one cluster then a jump
    /// to another: windows of a few instructions in the cluster lookup are met by sheer frequency
    S5 { threads: u8, kilo_reads: u8, comp: Comp, seed: u32 },
    /// long-lived reader threads under which packs come and go: `rounds` times, the main thread
    /// opens one of two packs that hold DIFFERENT bytes under the same content numbers, hands it
    /// to the same `threads` worker threads, they read and give it back, the main thread closes
    /// it (its memory is free for the next one). Nothing a thread remembers about a closed pack
    /// may be served for the next.
    S6 { threads: u8, rounds: u8, seed: u32 },
    /// `rounds` times: a fresh pack object, and `threads` threads released together on ONE compressed
    /// cluster nobody has asked for yet (they all find it undecoded and all want its reader built)
    S7 { threads: u8, rounds: u16, comp: Comp, seed: u32 },
}

pub struct C07;

/// S4: containers built once per worker process (a small directory with an indexed value store
/// and references; a big one with 3000 entries and a plain value store of tens of KiB).
fn s4_container(ctx: &Ctx, big: bool) -> Result<std::sync::Arc<(std::path::PathBuf, crate::container::ContainerModel)>, Failure> {
    static BUILT: Mutex<Vec<Option<std::sync::Arc<(std::path::PathBuf, crate::container::ContainerModel)>>>> = Mutex::new(vec![]);
    let mut g = BUILT.lock().unwrap();
    if g.is_empty() {
        g.push(None);
        g.push(None);
    }
    if let Some(b) = &g[big as usize] {
        return Ok(Arc::clone(b));
    }
    let dir = ctx.path(&format!("s4-{}", if big { "big" } else { "small" }));
    let _ = std::fs::remove_dir_all(&dir);
    std::fs::create_dir_all(&dir).unwrap();
    let spec = crate::faults::base_spec(if big { 5 } else { 1 }, crate::container::Packaging::OneFile, Comp::None, 4242);
    let built = crate::container::build(&spec, &dir, "a.jbk", None)?;
    let b = Arc::new((built.main_path.clone(), built.model));
    g[big as usize] = Some(Arc::clone(&b));
    Ok(b)
}

/// two small packs (3 full clusters) whose content k is blob_bytes(k) in one and blob_bytes(k + 7_000_000) in the other
fn s6_pack(ctx: &Ctx, salt: u32) -> Result<std::path::PathBuf, Failure> {
    let path = ctx.path(&format!("c07-s6-{salt}.jbkc"));
    if path.exists() {
        return Ok(path);
    }
    let tmp = ctx.path("c07-s6-building.jbkc");
    let upath = jbk::Utf8PathBuf::from_path_buf(tmp.clone()).unwrap();
    let mut creator = match jbk::creator::ContentPackCreator::new(&upath, jbk::PackId::from(1), vendor(), Default::default(), jbk::creator::Compression::None) {
        Ok(c) => c,
        Err(e) => fail!("create-error", "{e}"),
    };
    for i in 0..3 * BLOBS_PER_CLUSTER {
        if let Err(e) = creator.add_content(Box::new(std::io::Cursor::new(blob_bytes(i + salt))), jbk::creator::CompHint::No) {
            fail!("add-error", "{e}");
        }
    }
    match creator.finalize() {
        Ok((f, _)) => drop(f),
        Err(e) => fail!("finalize-error", "{e}"),
    }
    std::fs::rename(&tmp, &path).unwrap();
    Ok(path)
}

fn run_s6(ctx: &Ctx, threads: u8, rounds: u8, seed: u32, info: &mut CaseInfo) -> Result<(), Failure> {
    use std::sync::mpsc;
    let salts = [0u32, 7_000_000];
    let paths = [s6_pack(ctx, salts[0])?, s6_pack(ctx, salts[1])?];
    let nthreads = (threads as usize).clamp(1, 16);
    // worker t: receives (pack, salt), reads, drops the pack, answers
    let mut txs = vec![];
    let (done_tx, done_rx) = mpsc::channel::<Result<u64, Failure>>();
    let mut handles = vec![];
    for t in 0..nthreads {
        let (tx, rx) = mpsc::channel::<(Arc<jbk::reader::ContentPack>, u32, u32)>();
        txs.push(tx);
        let done_tx = done_tx.clone();
        handles.push(std::thread::spawn(move || {
            while let Ok((pack, salt, round)) = rx.recv() {
                let r = (|| -> Result<u64, Failure> {
                    let mut n = 0;
                    for step in 0..6u32 {
                        // the same six content numbers (two per cluster) every round, in the opposite
                        // order every other round: a round starts in the cluster the previous one ended in
                        let k = if round % 2 == 0 { step } else { 5 - step };
                        let idx = (k / 2) * BLOBS_PER_CLUSTER + (seed.wrapping_add(k * 131 + t as u32 * 17)) % BLOBS_PER_CLUSTER;
                        let e = blob_bytes(idx + salt);
                        let region = match pack.get_content(jbk::ContentIdx::from(idx)) {
                            Ok(Some(r)) => r,
                            Ok(None) => fail!("read-error", "S6 round {round} thread {t}: content {idx} does not exist"),
                            Err(err) => fail!("read-error", "S6 round {round} thread {t}: content {idx}: {err}"),
                        };
                        let mut v = Vec::with_capacity(e.len());
                        if let Err(err) = region.stream().read_to_end(&mut v) {
                            fail!("read-error", "S6 round {round} thread {t}: content {idx}: {err}");
                        }
                        ensure!(v == e, "wrong-bytes", "S6 round {round} thread {t}: content {idx} of the pack opened for this round returns other bytes ({} for {}): those of a pack closed earlier?", v.len(), e.len());
                        n += 1;
                    }
                    Ok(n)
                })();
                drop(pack);
                if done_tx.send(r).is_err() {
                    break;
                }
            }
        }));
    }
    drop(done_tx);
    let mut evals = 0u64;
    let mut failure = None;
    'rounds: for round in 0..rounds.max(2) as u32 {
        let which = (round % 2) as usize;
        let reader: jbk::Reader = jbk::FileSource::open(&paths[which]).unwrap().into();
        let pack = match jbk::reader::ContentPack::new(reader) {
            Ok(p) => Arc::new(p),
            Err(e) => fail!("open-error", "S6: {e}"),
        };
        for tx in &txs {
            let _ = tx.send((Arc::clone(&pack), salts[which], round));
        }
        for _ in 0..nthreads {
            match done_rx.recv_timeout(std::time::Duration::from_secs(120)) {
                Ok(Ok(n)) => evals += n,
                Ok(Err(f)) => {
                    failure = failure.or(Some(f));
                }
                Err(_) => {
                    failure = failure.or(Some(Failure::new("reader-panic", format!("S6 round {round}: a reader thread died or never answered: {}", take_panic().unwrap_or_default()))));
                    break 'rounds;
                }
            }
        }
        // every worker has dropped its clone: this closes the pack, on the main thread
        drop(pack);
        if failure.is_some() {
            break;
        }
    }
    drop(txs);
    for h in handles {
        let _ = h.join();
    }
    if let Some(f) = failure {
        return Err(f);
    }
    info.evals = evals.max(1);
    Ok(())
}

fn run_s5(ctx: &Ctx, threads: u8, kilo_reads: u8, comp: Comp, seed: u32, info: &mut CaseInfo) -> Result<(), Failure> {
    let sp = s1_pack(ctx, comp, 48)?;
    let reader: jbk::Reader = jbk::FileSource::open(&sp.path).unwrap().into();
    let pack = match jbk::reader::ContentPack::new(reader) {
        Ok(p) => Arc::new(p),
        Err(e) => fail!("open-error", "{e}"),
    };
    // two tiny targets in each of 24 clusters, expected bytes computed once
    let targets: Arc<Vec<(u32, Vec<u8>)>> = Arc::new(
        (0..48u32)
            .map(|k| {
                let cl = (k / 2) * 2 + (seed % 2);
                let idx = cl * BLOBS_PER_CLUSTER + (seed.wrapping_mul(31).wrapping_add(k * 97)) % BLOBS_PER_CLUSTER;
                (idx, blob_bytes(idx))
            })
            .collect(),
    );
    let nthreads = (threads as usize).clamp(2, 16);
    let reads = kilo_reads as u64 * 1000;
    let barrier = Arc::new(std::sync::Barrier::new(nthreads));
    let handles: Vec<_> = (0..nthreads)
        .map(|t| {
            let pack = Arc::clone(&pack);
            let targets = Arc::clone(&targets);
            let barrier = Arc::clone(&barrier);
            std::thread::spawn(move || -> Result<(), Failure> {
                let mut x = splitmix(seed as u64 ^ ((t as u64) << 40)) | 1;
                let mut k = t % targets.len();
                let mut buf = Vec::with_capacity(64);
                barrier.wait();
                let mut n = 0u64;
                while n < reads {
                    x ^= x << 13;
                    x ^= x >> 7;
                    x ^= x << 17;
                    // a run of 1..=3 reads of one target (and of its neighbour in the same cluster), then a jump
                    let run = 1 + (x % 3);
                    for r in 0..run {
                        let (idx, e) = &targets[(k ^ (r as usize & 1)) % targets.len()];
                        let region = match pack.get_content(jbk::ContentIdx::from(*idx)) {
                            Ok(Some(r)) => r,
                            Ok(None) => fail!("read-error", "S5 thread {t}: content {idx} does not exist"),
                            Err(err) => fail!("read-error", "S5 thread {t}: content {idx}: {err}"),
                        };
                        ensure!(region.size().into_u64() == e.len() as u64, "content-size", "S5 thread {t}: content {idx} has size {} instead of {}", region.size().into_u64(), e.len());
                        buf.clear();
                        if let Err(err) = region.stream().read_to_end(&mut buf) {
                            fail!("read-error", "S5 thread {t}: content {idx}: {err}");
                        }
                        ensure!(&buf == e, "wrong-bytes", "S5 thread {t}: content {idx} (cluster {}) returns the bytes of another content", idx / BLOBS_PER_CLUSTER);
                        n += 1;
                    }
                    k = (x >> 20) as usize % targets.len();
                }
                Ok(())
            })
        })
        .collect();
    let mut first_err = None;
    for (t, h) in handles.into_iter().enumerate() {
        match h.join() {
            Ok(Ok(())) => {}
            Ok(Err(f)) => first_err = first_err.or(Some(f)),
            Err(_) => first_err = first_err.or(Some(Failure::new("reader-panic", format!("S5: reader thread {t} panicked: {}", take_panic().unwrap_or_default())))),
        }
    }
    if let Some(f) = first_err {
        return Err(f);
    }
    info.evals = reads * nthreads as u64;
    Ok(())
}

fn run_s4(ctx: &Ctx, threads: u8, rounds: u8, big: bool, seed: u32, info: &mut CaseInfo) -> Result<(), Failure> {
    let b = s4_container(ctx, big)?;
    let nthreads = (threads as usize).clamp(2, 16);
    let mut evals = 0u64;
    for round in 0..rounds.max(1) {
        let c = match jbk::reader::Container::new(&b.0) {
            Ok(c) => Arc::new(c),
            Err(e) => fail!("open-error", "S4: Container::new: {e}"),
        };
        let barrier = Arc::new(std::sync::Barrier::new(nthreads));
        let handles: Vec<_> = (0..nthreads)
            .map(|t| {
                let c = Arc::clone(&c);
                let b = Arc::clone(&b);
                let barrier = Arc::clone(&barrier);
                std::thread::spawn(move || -> Result<u64, Failure> {
                    let mut n = 0u64;
                    barrier.wait();
                    for (si, sm) in b.1.dir.stores.iter().enumerate() {
                        for (wname, off, cnt) in &sm.windows {
                            // the container's own (shared) storages: their caches are filled by whoever comes first
                            let oi = match crate::dirgen::open_index(c.get_directory_pack(), &|ix| ix.get_store(c.get_entry_storage()), c.get_value_storage(), wname) {
                                Ok(o) => o,
                                Err(e) => fail!("read-error", "S4 round {round} thread {t}: index {wname} of store {si}: {e}"),
                            };
                            ensure!(oi.count() == *cnt, "wrong-bytes", "S4 round {round} thread {t}: index {wname} exposes {} entries, declared {cnt}", oi.count());
                            let step = (*cnt / 40).max(1);
                            for i in ((t + seed as usize) % step..*cnt).step_by(step) {
                                let got = match oi.entry(i as u32) {
                                    Ok(Some(g)) => g,
                                    Ok(None) => fail!("read-error", "S4 round {round} thread {t}: index {wname}: entry {i} of {cnt} is None"),
                                    Err(e) => fail!("read-error", "S4 round {round} thread {t}: index {wname}: {e}"),
                                };
                                let exp = sm.expected_at(off + i);
                                ensure!(got == exp, "wrong-bytes", "S4 round {round} thread {t}: index {wname} entry {i}: read {got:?}, written {exp:?}");
                                n += 1;
                            }
                        }
                    }
                    Ok(n)
                })
            })
            .collect();
        let mut first_err = None;
        for (t, h) in handles.into_iter().enumerate() {
            match h.join() {
                Ok(Ok(n)) => evals += n,
                Ok(Err(f)) => first_err = first_err.or(Some(f)),
                Err(_) => first_err = first_err.or(Some(Failure::new("reader-panic", format!("S4 round {round}: reader thread {t} panicked: {}", take_panic().unwrap_or_default())))),
            }
        }
        if let Some(f) = first_err {
            return Err(f);
        }
    }
    info.evals = evals.max(1);
    Ok(())
}

fn op_strategy() -> BoxedStrategy<Op> {
    let kind = prop_oneof![
        4 => Just(ReadKind::Whole),
        2 => (any::<u16>(), any::<u16>()).prop_map(|(off, len)| ReadKind::Slice { off, len }),
        2 => prop::collection::vec(prop_oneof![Just(1u16), 1u16..16, Just(4096u16)], 1..4).prop_map(|reads| ReadKind::Stream { reads }),
        1 => (any::<u16>(), any::<u16>(), any::<u16>(), any::<u16>()).prop_map(|(off1, len1, off2, len2)| ReadKind::CutCut { off1, len1, off2, len2 }),
        2 => (1u8..60).prop_map(|later| ReadKind::Hold { later }),
    ];
    (any::<u16>(), prop_oneof![2 => any::<u16>(), 1 => Just(0u16), 1 => Just(u16::MAX)], kind).prop_map(|(cluster, blob, kind)| Op { cluster, blob, kind }).boxed()
}

fn range_in(off: u16, len: u16, n: usize) -> (usize, usize) {
    let o = pick(off, n + 1);
    (o, pick(len, n - o + 1))
}

fn do_read(pack: &jbk::reader::ContentPack, idx: u32, kind: &ReadKind) -> Result<(), Failure> {
    let e = blob_bytes(idx);
    let r = match pack.get_content(jbk::ContentIdx::from(idx)) {
        Ok(Some(r)) => r,
        Ok(None) => fail!("content-none", "content {idx} answers None"),
        Err(err) => fail!("content-error", "content {idx}: {err}"),
    };
    ensure!(r.size().into_u64() == e.len() as u64, "content-size", "content {idx}: size {} instead of {}", r.size().into_u64(), e.len());
    match kind {
        ReadKind::Whole => {
            let mut v = Vec::with_capacity(e.len());
            if let Err(err) = r.stream().read_to_end(&mut v) {
                fail!("read-error", "content {idx}: {err}");
            }
            ensure!(v == e, "wrong-bytes", "content {idx}: whole read returns foreign / torn bytes ({} vs {} bytes)", v.len(), e.len());
        }
        ReadKind::Slice { off, len } => {
            let (o, l) = range_in(*off, *len, e.len());
            match r.get_slice(jbk::Offset::from(o as u64), l) {
                Ok(s) => ensure!(s.as_ref() == &e[o..o + l], "wrong-bytes", "content {idx}: get_slice({o},{l}) returns foreign bytes"),
                Err(err) => fail!("read-error", "content {idx}: get_slice: {err}"),
            }
        }
        ReadKind::Stream { reads } => {
            let mut s = r.stream();
            let mut pos = 0;
            let mut k = 0;
            while pos < e.len() {
                let mut buf = vec![0u8; reads[k % reads.len()] as usize];
                k += 1;
                match s.read(&mut buf) {
                    Ok(0) => fail!("early-eof", "content {idx}: stream ends at {pos} of {}", e.len()),
                    Ok(n) => {
                        ensure!(buf[..n] == e[pos..pos + n], "wrong-bytes", "content {idx}: stream read at {pos} returns foreign bytes");
                        pos += n;
                    }
                    Err(err) => fail!("read-error", "content {idx}: {err}"),
                }
            }
        }
        ReadKind::Hold { .. } => unreachable!("handled by the caller"),
        ReadKind::CutCut { off1, len1, off2, len2 } => {
            let (o1, l1) = range_in(*off1, *len1, e.len());
            let s1 = r.cut(jbk::Offset::from(o1 as u64), jbk::Size::from(l1 as u64));
            let (o2, l2) = range_in(*off2, *len2, l1);
            let s2 = s1.cut(jbk::Offset::from(o2 as u64), jbk::Size::from(l2 as u64));
            let mut v = vec![];
            if let Err(err) = s2.stream().read_to_end(&mut v) {
                fail!("read-error", "content {idx}: {err}");
            }
            ensure!(v == e[o1 + o2..o1 + o2 + l2], "wrong-bytes", "content {idx}: nested cut returns foreign bytes");
        }
    }
    Ok(())
}

// --- S2 producer -------------------------------------------------------------------------

struct Gate {
    released: Mutex<usize>,
    cv: Condvar,
}

struct Producer {
    data: Arc<Vec<u8>>,
    pos: usize,
    gate: Arc<Gate>,
}

impl Read for Producer {
    fn read(&mut self, buf: &mut [u8]) -> std::io::Result<usize> {
        if self.pos >= self.data.len() {
            return Ok(0);
        }
        let chunk = self.pos / CHUNK;
        // wait for the release of this chunk
        let g = self.gate.released.lock().unwrap();
        let _g = self.gate.cv.wait_while(g, |r| *r <= chunk).unwrap();
        let end = ((chunk + 1) * CHUNK).min(self.data.len());
        let n = buf.len().min(end - self.pos);
        buf[..n].copy_from_slice(&self.data[self.pos..self.pos + n]);
        self.pos += n;
        Ok(n)
    }
}

pub fn s2_ranges(total: u32) -> Vec<(u32, u32)> {
    // endpoints at the chunk boundaries +-1, begins at 0 / just before the end / mid
    let mut ends: Vec<u32> = vec![1, total];
    for k in 1..=3u32 {
        for d in [-1i64, 0, 1] {
            let v = k as i64 * CHUNK as i64 + d;
            if v > 0 && (v as u32) <= total {
                ends.push(v as u32);
            }
        }
    }
    ends.sort();
    ends.dedup();
    let mut out = vec![];
    for e in ends {
        out.push((0, e));
        if e > 1 {
            out.push((e - 1, e));
        }
    }
    out
}

fn all_schedules(chunks: usize, readers: usize) -> Vec<Vec<Step>> {
    // interleavings of `chunks` ordered releases with every permutation of reader starts
    fn perms(n: usize) -> Vec<Vec<u8>> {
        if n == 0 {
            return vec![vec![]];
        }
        let mut out = vec![];
        for p in perms(n - 1) {
            for i in 0..=p.len() {
                let mut q = p.clone();
                q.insert(i, (n - 1) as u8);
                out.push(q);
            }
        }
        out
    }
    fn inter(rel: usize, starts: &[u8], cur: &mut Vec<Step>, out: &mut Vec<Vec<Step>>) {
        if rel == 0 && starts.is_empty() {
            out.push(cur.clone());
            return;
        }
        if rel > 0 {
            cur.push(Step::Release);
            inter(rel - 1, starts, cur, out);
            cur.pop();
        }
        if let Some((s, rest)) = starts.split_first() {
            cur.push(Step::Start(*s));
            inter(rel, rest, cur, out);
            cur.pop();
        }
    }
    let mut out = vec![];
    for p in perms(readers) {
        inter(chunks, &p, &mut vec![], &mut out);
    }
    out
}

fn wait_until<F: Fn(&HookState) -> bool>(st: &HookState, f: F, limit: Duration) -> bool {
    let t0 = Instant::now();
    let mut g = st.waits.lock().unwrap();
    loop {
        drop(g);
        if f(st) {
            return true;
        }
        g = st.waits.lock().unwrap();
        if t0.elapsed() > limit {
            return false;
        }
        let (g2, _) = st.cv.wait_timeout(g, Duration::from_millis(2)).unwrap();
        g = g2;
    }
}

fn run_s2(chunks: u8, last_chunk_len: u16, ranges: &[(u32, u32)], schedule: &[Step], via_stream: bool, info: &mut CaseInfo) -> Result<(), Failure> {
    let st = hook_state();
    st.plan_strength.store(0, Ordering::Relaxed);
    let total = (chunks as usize - 1) * CHUNK + (last_chunk_len as usize).clamp(1, CHUNK);
    // unique total per invocation is not needed: S2 runs alone in this process
    let data = Arc::new(content_bytes(total as u32 ^ 0x5eed, total, Entropy::High));
    st.published.lock().unwrap().remove(&(total as u64));
    let gate = Arc::new(Gate { released: Mutex::new(0), cv: Condvar::new() });
    let region = jbk::verif::decoder_region(Producer { data: Arc::clone(&data), pos: 0, gate: Arc::clone(&gate) }, total);
    let mut handles: Vec<Option<std::thread::JoinHandle<Result<(), Failure>>>> = ranges.iter().map(|_| None).collect();
    let done: Arc<Vec<AtomicBool>> = Arc::new(ranges.iter().map(|_| AtomicBool::new(false)).collect());
    let mut released = 0usize;
    for step in schedule {
        match step {
            Step::Release => {
                released += 1;
                {
                    let mut r = gate.released.lock().unwrap();
                    *r = released;
                    gate.cv.notify_all();
                }
                let want = (released * CHUNK).min(total) as u64;
                let ok = wait_until(&st, |s| s.published.lock().unwrap().get(&(total as u64)).copied().unwrap_or(0) >= want, Duration::from_secs(20));
                ensure!(ok, "publication-stalled", "chunk {released} was released but its publication was not observed within 20 s");
            }
            Step::Start(r) => {
                let r = *r as usize;
                let (b, e) = ranges[r];
                let region = region.clone();
                let data = Arc::clone(&data);
                let done2 = Arc::clone(&done);
                let waits_before = *st.waits.lock().unwrap();
                handles[r] = Some(std::thread::spawn(move || {
                    let res = (|| -> Result<(), Failure> {
                        let (b, e) = (b as usize, e as usize);
                        if via_stream {
                            let sl = region.cut(jbk::Offset::from(b as u64), jbk::Size::from((e - b) as u64));
                            let mut v = vec![0u8; e - b];
                            if let Err(err) = sl.stream().read_exact(&mut v) {
                                fail!("read-error", "reader range [{b},{e}): {err}");
                            }
                            ensure!(v == data[b..e], "wrong-bytes", "reader range [{b},{e}) (stream) got foreign / torn bytes");
                        } else {
                            match region.get_slice(jbk::Offset::from(b as u64), e - b) {
                                Ok(s) => ensure!(s.as_ref() == &data[b..e], "wrong-bytes", "reader range [{b},{e}) (get_slice) got foreign / torn bytes"),
                                Err(err) => fail!("read-error", "reader range [{b},{e}): {err}"),
                            }
                        }
                        Ok(())
                    })();
                    done2[r].store(true, Ordering::SeqCst);
                    res
                }));
                // the step is over when the reader finished or entered the wait
                let ok = wait_until(&st, |s| done[r].load(Ordering::SeqCst) || *s.waits.lock().unwrap() > waits_before, Duration::from_secs(20));
                ensure!(ok, "reader-stalled", "reader {r} neither finished nor reached the wait within 20 s");
                if !done[r].load(Ordering::SeqCst) {
                    info.class("reader-waited-for-publication");
                }
            }
        }
    }
    // everything is released and published: every reader must come back
    let t0 = Instant::now();
    for (r, h) in handles.into_iter().enumerate() {
        let Some(h) = h else { continue };
        while !h.is_finished() {
            if t0.elapsed() > Duration::from_secs(5) {
                fail!("lost-wakeup", "all {chunks} chunks are published (wait predicate satisfied) but reader {r} on range {:?} has not returned after 5 s", ranges[r]);
            }
            std::thread::sleep(Duration::from_millis(1));
        }
        match h.join() {
            Ok(Ok(())) => {}
            Ok(Err(f)) => return Err(f),
            Err(_) => fail!("reader-panic", "reader {r} panicked: {}", take_panic().unwrap_or_default()),
        }
    }
    Ok(())
}

impl Property for C07 {
    type Case = Case;
    const ID: &'static str = "C07";

    fn rule() -> String {
        "(S1) proptest-generated concurrent read programs: 2-16 reader threads over one opened content pack holding 48-56 lz4/lzma/zstd clusters of 4095 small blobs (more clusters than the 40 cache slots and the 8 pool threads; 5-25 decode chunks per cluster), op lists of whole reads, get_slice, streamed reads with small buffers and nested cuts; patterns {independent lists, every thread the same list, sweeps over all clusters forcing evictions while regions are held}; a seeded perturbation plan injects yields / 20us / 200us / 2ms sleeps at the cfg(jubako_verif) schedule points (before/after length publication, reader wake-up and slice, cluster cache lock, plain-reader construction). Oracle: every read returns exactly the model bytes (derived from the content index), every thread finishes. (S2) bounded exhaustive: the real SeekableDecoder over a harness-owned producer that releases chunk k only when told; every interleaving of {release chunk 1..3 in order} with {start reader r} for 2-3 readers (140 schedules for 3+3) x range triples drawn from the set of ranges whose ends sit on the chunk boundaries +-1, through get_slice and through stream reads; a step only ends when its publication / the reader's entry into the wait was observed through the hooks. Oracle: exact bytes; after the last release every reader returns within 5 s (else lost wake-up). Non-trivial = S1: at least 2 threads and a plan strength > 0 touching >40 clusters or the same contents; S2: a schedule in which at least one reader had to wait for a publication; distinct by (pattern, threads, compression, plan) / (ranges, schedule). (S3) readers that are tasks of a rayon thread pool (1-6 threads, or rayon's global pool), at least as many readers as pool threads, each first asking for a cluster nobody has decoded yet; the case itself has no timeout: a pool whose workers all wait for a decoder that cannot run is reported by the engine's blocked-forever criterion. S4 (directory side): 2..16 threads, released together by a barrier, make the first access to the entry stores and value stores of a freshly opened container through its shared storages (the store caches are filled while the others ask) and read a spread of entries, compared with the model; 6 fixed cases of 25 fresh containers each plus generated ones. S5 (hammer): 2..16 threads ask one opened pack for tiny contents 10 000..60 000 times each, runs of 1-3 reads inside a cluster then a jump to another of 24 clusters, exact bytes compared every time: windows of a few instructions in the cluster lookup are met by frequency, not by injected delays (4 fixed cases of 60 000 reads per thread plus generated ones). S6: 1..8 long-lived reader threads under which two packs holding different bytes under the same content numbers are opened, read and closed in turn (by the main thread) 10..80 times: what a thread remembers of a closed pack must not be served for the next one. S7: 500..1500 fresh pack objects per fixed case (every other one with seeded yields and short sleeps at the schedule points), 8..32 threads released together on one compressed cluster nobody has asked for yet.".into()
    }

    fn assumptions() -> Vec<String> {
        vec![
            "interleavings finer than the hook points are sampled (delays), not enumerated; instruction-level and weak-memory reorderings are only covered by the ThreadSanitizer tier".into(),
            "the hook between rd.wait and the actual condvar wait leaves a small window: a release landing in it is still a legal schedule".into(),
        ]
    }

    fn cases(tier: Tier) -> u32 {
        match tier {
            Tier::Quick => 96,
            Tier::Thorough => 6000,
        }
    }

    fn workers(_tier: Tier) -> usize {
        // S1 cases are themselves heavily multi-threaded
        8
    }

    fn case_timeout_s(_tier: Tier) -> u64 {
        600
    }

    fn strategy(_tier: Tier) -> BoxedStrategy<Case> {
        let s3 = (real_comp_strategy(), prop_oneof![3 => 1u8..=6, 1 => Just(0u8)], 1u8..=40, any::<u32>()).prop_map(|(comp, pool_threads, tasks, seed)| Case::S3 {
            comp: match comp {
                Comp::Lz4(_) => Comp::Lz4(1),
                Comp::Lzma(_) => Comp::Lzma(1),
                _ => Comp::Zstd(1),
            },
            pool_threads,
            tasks: if pool_threads == 0 { tasks.max(36) } else { tasks.max(pool_threads) },
            seed,
        });
        let s1 = (
            real_comp_strategy(),
            prop_oneof![Just(2u8), Just(3u8), Just(4u8), Just(8u8), Just(16u8), 2u8..=16],
            prop_oneof![3 => Just(Pattern::Independent), 2 => Just(Pattern::Same), 2 => Just(Pattern::Sweep)],
            prop::collection::vec(prop::collection::vec(op_strategy(), 20..120), 16),
            any::<u32>(),
            prop_oneof![1 => Just(0u8), 3 => Just(1u8), 2 => Just(2u8), 1 => Just(3u8)],
        )
            .prop_map(|(comp, threads, pattern, ops, plan_seed, strength)| Case::S1 {
                // one case in five reads an uncompressed, file-backed pack (concurrent FileSource reads)
                comp: if plan_seed % 5 == 0 {
                    Comp::None
                } else {
                    match comp {
                        Comp::Lz4(_) => Comp::Lz4(1),
                        Comp::Lzma(_) => Comp::Lzma(1),
                        _ => Comp::Zstd(1),
                    }
                },
                threads,
                pattern,
                ops,
                plan_seed,
                strength,
            });
        let s4 = (prop_oneof![Just(2u8), Just(4u8), Just(8u8), 2u8..=12], 2u8..=6, any::<bool>(), any::<u32>()).prop_map(|(threads, rounds, big, seed)| Case::S4 { threads, rounds, big, seed });
        let s5 = (prop_oneof![Just(2u8), Just(4u8), Just(8u8), 2u8..=12], 10u8..=60, any::<u32>()).prop_map(|(threads, kilo_reads, seed)| Case::S5 { threads, kilo_reads, comp: Comp::None, seed });
        let s6 = (prop_oneof![Just(1u8), Just(2u8), Just(4u8), 1u8..=8], 10u8..=80, any::<u32>()).prop_map(|(threads, rounds, seed)| Case::S6 { threads, rounds, seed });
        prop_oneof![10 => s1, 2 => s3, 1 => s4, 1 => s5, 1 => s6].boxed()
    }

    fn fixed_cases(tier: Tier) -> Vec<Case> {
        let mut out = vec![];
        // S4: 25 freshly opened containers per case, 4..16 threads released together on their stores
        for (threads, comp) in [(32u8, Comp::Zstd(3)), (16, Comp::Lz4(3)), (8, Comp::Lzma(1))] {
            out.push(Case::S7 { threads, rounds: if threads == 32 { 1500 } else { 500 }, comp, seed: threads as u32 });
        }
        for threads in [1u8, 4, 8] {
            out.push(Case::S6 { threads, rounds: 80, seed: 11 * threads as u32 });
        }
        for (threads, comp) in [(8u8, Comp::None), (3, Comp::None), (16, Comp::None), (8, Comp::Zstd(3))] {
            out.push(Case::S5 { threads, kilo_reads: 60, comp, seed: 7 + threads as u32 });
        }
        for (threads, big) in [(8u8, true), (16, true), (4, true), (4, false), (8, false), (12, false)] {
            out.push(Case::S4 { threads, rounds: 25, big, seed: threads as u32 });
        }
        // 3 chunks (last one partial), 3 readers: all 140 schedules x sampled range triples
        let total = 2 * CHUNK as u32 + 1000;
        let ranges = s2_ranges(total);
        let scheds3 = all_schedules(3, 3);
        let scheds2 = all_schedules(3, 2);
        let n = ranges.len();
        let stride = if tier == Tier::Thorough { 1 } else { 7 };
        let mut k = 0usize;
        for a in 0..n {
            for b in 0..n {
                // 2 readers: every pair (thorough) / every 3rd pair (quick), all schedules
                if tier == Tier::Thorough || (a * n + b) % 3 == 0 {
                    for s in &scheds2 {
                        out.push(Case::S2 { chunks: 3, last_chunk_len: 1000, ranges: vec![ranges[a], ranges[b]], schedule: s.clone(), via_stream: (a + b) % 2 == 0 });
                    }
                }
                for c in 0..n {
                    k += 1;
                    if k % (stride * 11) != 0 {
                        continue;
                    }
                    for (si, s) in scheds3.iter().enumerate() {
                        if tier == Tier::Quick && (si + k) % 4 != 0 {
                            continue;
                        }
                        out.push(Case::S2 { chunks: 3, last_chunk_len: 1000, ranges: vec![ranges[a], ranges[b], ranges[c]], schedule: s.clone(), via_stream: k % 2 == 0 });
                    }
                }
            }
        }
        // exact multiple of the chunk size and a single chunk
        for s in all_schedules(2, 2) {
            out.push(Case::S2 { chunks: 2, last_chunk_len: 4096, ranges: vec![(0, 8192), (4095, 4097)], schedule: s.clone(), via_stream: false });
            out.push(Case::S2 { chunks: 2, last_chunk_len: 4096, ranges: vec![(8191, 8192), (0, 4096)], schedule: s, via_stream: true });
        }
        for s in all_schedules(1, 3) {
            out.push(Case::S2 { chunks: 1, last_chunk_len: 100, ranges: vec![(0, 100), (99, 100), (0, 1)], schedule: s, via_stream: false });
        }
        // readers that are rayon workers: as many and more readers than pool threads
        for (k, (pool_threads, tasks)) in [(1u8, 3u8), (2, 2), (2, 9), (4, 16), (0, 40)].into_iter().enumerate() {
            out.push(Case::S3 { comp: [Comp::Zstd(1), Comp::Lz4(1), Comp::Lzma(1)][k % 3], pool_threads, tasks, seed: 1000 + 77 * k as u32 });
        }
        out
    }

    fn required_classes(_tier: Tier) -> Vec<&'static str> {
        vec!["S1", "S2", "S7:first-access-to-one-cluster-by-many", "S6:packs-reopened-under-long-lived-threads", "S5:hammer", "S4:concurrent-first-access-to-directory-stores", "S3:readers-are-rayon-workers", "S3:own-pool", "reader-waited-for-publication", "pattern:Sweep", "pattern:Same", "threads>=8", "comp:lz4", "comp:lzma", "comp:zstd", "comp:none", "touched>40-clusters"]
    }

    fn max_shrink_iters() -> u32 {
        60
    }

    fn run(case: &Case, ctx: &Ctx) -> CaseResult {
        let mut info = CaseInfo::new();
        match case {
            Case::S2 { chunks, last_chunk_len, ranges, schedule, via_stream } => {
                info.class("S2");
                run_s2(*chunks, *last_chunk_len, ranges, schedule, *via_stream, &mut info)?;
                info.nontrivial = info.classes.iter().any(|c| c == "reader-waited-for-publication");
                info.key = hash_str(&format!("{chunks}|{ranges:?}|{schedule:?}|{via_stream}"));
                Ok(info)
            }
            Case::S3 { comp, pool_threads, tasks, seed } => {
                use rayon::prelude::*;
                info.class("S3:readers-are-rayon-workers");
                info.class(if *pool_threads == 0 { "S3:global-pool" } else { "S3:own-pool" });
                let nclusters = 48 + (*seed % 9);
                let sp = s1_pack(ctx, *comp, nclusters)?;
                let reader: jbk::Reader = jbk::FileSource::open(&sp.path).unwrap().into();
                let pack = match jbk::reader::ContentPack::new(reader) {
                    Ok(p) => Arc::new(p),
                    Err(e) => fail!("open-error", "{e}"),
                };
                let first = *seed % nclusters;
                let ntasks = *tasks as u32;
                let work = || -> Result<(), Failure> {
                    // no timeout here on purpose: readers that never return are decided by the engine's
                    // blocked-forever criterion (every thread asleep without a timeout, no cpu used)
                    (0..ntasks).into_par_iter().try_for_each(|t| {
                        let cl = (first + t) % nclusters;
                        let blob = (*seed >> 8).wrapping_add(t * 977) % BLOBS_PER_CLUSTER;
                        do_read(&pack, cl * BLOBS_PER_CLUSTER + blob, &ReadKind::Whole)?;
                        do_read(&pack, cl * BLOBS_PER_CLUSTER + (blob + 1) % BLOBS_PER_CLUSTER, &ReadKind::Slice { off: 3, len: 9 })
                    })
                };
                if *pool_threads == 0 {
                    work()?;
                } else {
                    let pool = rayon::ThreadPoolBuilder::new().num_threads(*pool_threads as usize).build().map_err(|e| Failure::new("harness-error", format!("rayon pool: {e}")))?;
                    pool.install(work)?;
                }
                info.evals = 2 * ntasks as u64;
                info.nontrivial = ntasks >= (*pool_threads).max(1) as u32;
                info.key = hash_str(&format!("S3|{comp:?}|{pool_threads}|{tasks}|{}", seed % 64));
                Ok(info)
            }
            Case::S7 { threads, rounds, comp, seed } => {
                info.class("S7:first-access-to-one-cluster-by-many");
                let sp = s1_pack(ctx, *comp, 48)?;
                let nthreads = (*threads as usize).clamp(2, 32);
                let mut evals = 0u64;
                let st = hook_state();
                for round in 0..*rounds as u32 {
                    // every other round with seeded yields / short sleeps at the schedule points (cluster
                    // lookup, reader construction), the others at full speed
                    st.plan_seed.store(*seed as u64 ^ ((round as u64) << 20), Ordering::Relaxed);
                    st.plan_strength.store((round % 2) as u64, Ordering::Relaxed);
                    let reader: jbk::Reader = jbk::FileSource::open(&sp.path).unwrap().into();
                    let pack = match jbk::reader::ContentPack::new(reader) {
                        Ok(p) => Arc::new(p),
                        Err(e) => fail!("open-error", "{e}"),
                    };
                    let cl = seed.wrapping_add(round * 7) % 48;
                    let barrier = Arc::new(std::sync::Barrier::new(nthreads));
                    let hs: Vec<_> = (0..nthreads)
                        .map(|t| {
                            let pack = Arc::clone(&pack);
                            let barrier = Arc::clone(&barrier);
                            std::thread::spawn(move || -> Result<(), Failure> {
                                let idx = cl * BLOBS_PER_CLUSTER + (t as u32 * 131 + round) % BLOBS_PER_CLUSTER;
                                barrier.wait();
                                do_read(&pack, idx, &ReadKind::Whole)
                            })
                        })
                        .collect();
                    for (t, h) in hs.into_iter().enumerate() {
                        match h.join() {
                            Ok(r) => r?,
                            Err(_) => fail!("reader-panic", "S7 round {round}: reader thread {t} of {nthreads} making the first access to cluster {cl} panicked: {}", take_panic().unwrap_or_default()),
                        }
                        evals += 1;
                    }
                }
                st.plan_strength.store(0, Ordering::Relaxed);
                info.evals = evals.max(1);
                info.nontrivial = true;
                info.key = hash_str(&format!("S7|{threads}|{rounds}|{comp:?}|{}", seed % 16));
                Ok(info)
            }
            Case::S6 { threads, rounds, seed } => {
                info.class("S6:packs-reopened-under-long-lived-threads");
                run_s6(ctx, *threads, *rounds, *seed, &mut info)?;
                info.nontrivial = true;
                info.key = hash_str(&format!("S6|{threads}|{rounds}|{}", seed % 16));
                Ok(info)
            }
            Case::S5 { threads, kilo_reads, comp, seed } => {
                info.class("S5:hammer");
                run_s5(ctx, *threads, *kilo_reads, *comp, *seed, &mut info)?;
                info.nontrivial = true;
                info.key = hash_str(&format!("S5|{threads}|{kilo_reads}|{comp:?}|{}", seed % 16));
                Ok(info)
            }
            Case::S4 { threads, rounds, big, seed } => {
                info.class("S4:concurrent-first-access-to-directory-stores");
                run_s4(ctx, *threads, *rounds, *big, *seed, &mut info)?;
                info.nontrivial = true;
                info.key = hash_str(&format!("S4|{threads}|{rounds}|{big}|{}", seed % 16));
                Ok(info)
            }
            Case::S1 { comp, threads, pattern, ops, plan_seed, strength } => {
                info.class("S1");
                info.class(format!("comp:{}", comp.name()));
                info.class(format!("pattern:{pattern:?}"));
                if *threads >= 8 {
                    info.class("threads>=8");
                }
                let nclusters = 48 + (*plan_seed % 9);
                let sp = s1_pack(ctx, *comp, nclusters)?;
                let st = hook_state();
                st.plan_seed.store(*plan_seed as u64, Ordering::Relaxed);
                st.plan_strength.store(*strength as u64, Ordering::Relaxed);
                // a fresh reader state for every case
                let reader: jbk::Reader = jbk::FileSource::open(&sp.path).unwrap().into();
                let pack = match jbk::reader::ContentPack::new(reader) {
                    Ok(p) => Arc::new(p),
                    Err(e) => fail!("open-error", "{e}"),
                };
                let nthreads = (*threads as usize).clamp(2, 16);
                let touched: Arc<Mutex<std::collections::BTreeSet<u32>>> = Arc::new(Mutex::new(Default::default()));
                let total_ops = Arc::new(AtomicU64::new(0));
                let handles: Vec<_> = (0..nthreads)
                    .map(|t| {
                        let pack = Arc::clone(&pack);
                        let list: Vec<Op> = match pattern {
                            Pattern::Same => ops[0].clone(),
                            _ => ops[t % ops.len()].clone(),
                        };
                        let pattern = pattern.clone();
                        let touched = Arc::clone(&touched);
                        let total_ops = Arc::clone(&total_ops);
                        let ncl = sp.nclusters;
                        std::thread::spawn(move || -> Result<(), Failure> {
                            let mut mine = std::collections::BTreeSet::new();
                            // regions taken earlier and read later: (due op index, content index, region)
                            let mut held: Vec<(usize, u32, jbk::reader::ByteRegion)> = vec![];
                            let check_held = |idx: u32, r: &jbk::reader::ByteRegion| -> Result<(), Failure> {
                                let e = blob_bytes(idx);
                                let mut v = Vec::with_capacity(e.len());
                                if let Err(err) = r.stream().read_to_end(&mut v) {
                                    fail!("read-error", "held region of content {idx}: {err}");
                                }
                                ensure!(v == e, "wrong-bytes", "held region of content {idx}: stale / foreign bytes after its cluster left the cache ({} vs {} bytes)", v.len(), e.len());
                                Ok(())
                            };
                            for (i, op) in list.iter().enumerate() {
                                let mut k = 0;
                                while k < held.len() {
                                    if held[k].0 <= i {
                                        let (_, idx, r) = held.swap_remove(k);
                                        check_held(idx, &r)?;
                                    } else {
                                        k += 1;
                                    }
                                }
                                let cl = match pattern {
                                    // thread t sweeps the clusters starting at a different phase
                                    Pattern::Sweep => ((i as u32) + (t as u32) * 5) % ncl,
                                    _ => pick(op.cluster, ncl as usize) as u32,
                                };
                                let blob = pick(op.blob, BLOBS_PER_CLUSTER as usize) as u32;
                                mine.insert(cl);
                                if let ReadKind::Hold { later } = &op.kind {
                                    let idx = cl * BLOBS_PER_CLUSTER + blob;
                                    match pack.get_content(jbk::ContentIdx::from(idx)) {
                                        Ok(Some(r)) => held.push((i + *later as usize, idx, r)),
                                        Ok(None) => fail!("content-none", "content {idx} answers None"),
                                        Err(err) => fail!("content-error", "content {idx}: {err}"),
                                    }
                                    total_ops.fetch_add(1, Ordering::Relaxed);
                                    continue;
                                }
                                do_read(&pack, cl * BLOBS_PER_CLUSTER + blob, &op.kind)?;
                                total_ops.fetch_add(1, Ordering::Relaxed);
                            }
                            for (_, idx, r) in held {
                                check_held(idx, &r)?;
                            }
                            touched.lock().unwrap().extend(mine);
                            Ok(())
                        })
                    })
                    .collect();
                let t0 = Instant::now();
                let mut first_err = None;
                for (t, h) in handles.into_iter().enumerate() {
                    while !h.is_finished() {
                        if t0.elapsed() > Duration::from_secs(300) {
                            st.plan_strength.store(0, Ordering::Relaxed);
                            fail!("reader-thread-stuck", "reader thread {t} has not finished after 300 s");
                        }
                        std::thread::sleep(Duration::from_millis(2));
                    }
                    match h.join() {
                        Ok(Ok(())) => {}
                        Ok(Err(f)) => {
                            first_err.get_or_insert(f);
                        }
                        Err(_) => {
                            first_err.get_or_insert(Failure::new("reader-panic", format!("reader thread {t} panicked: {}", take_panic().unwrap_or_default())));
                        }
                    }
                }
                st.plan_strength.store(0, Ordering::Relaxed);
                if let Some(f) = first_err {
                    return Err(f);
                }
                let ntouched = touched.lock().unwrap().len();
                if ntouched > 40 {
                    info.class("touched>40-clusters");
                }
                info.evals = total_ops.load(Ordering::Relaxed).max(1);
                info.nontrivial = nthreads >= 2 && *strength > 0 && (ntouched > 40 || *pattern == Pattern::Same);
                info.key = hash_str(&format!("{comp:?}|{nthreads}|{pattern:?}|{plan_seed}|{strength}"));
                Ok(info)
            }
        }
    }
}
