//! C12 — rewriting a pack location changes only that location; the manifest stays valid.

use crate::container::*;
use crate::dirgen::*;
use crate::engine::*;
use crate::gen::*;
use crate::indep;
use crate::{ensure, fail};
use jubako as jbk;
use proptest::prelude::*;
use serde::{Deserialize, Serialize};
use std::collections::BTreeMap;

#[derive(Serialize, Deserialize, Clone, Debug, PartialEq, Eq)]
pub enum Loc {
    Empty,
    Ascii(u8),
    /// multi-byte UTF-8 of exactly this many bytes (clamped to 2..=213)
    Utf8(u8),
    DotDot,
    /// the location the creator recorded
    Original,
    /// another spelling of the path recorded NOW (a different string naming the same path):
    /// 0 doubled separator, 1 trailing separator, 2 leading "./", 3 "x/../" in front
    Respell(u8),
    /// strings holding the character U+0000 (legal UTF-8, one byte 0x00 - the byte the field is
    /// padded with): 0 at the end, 1 alone, 2 in the middle, 3 twice at the end, 4 at the start
    #[serde(alias = "Nul")]
    Nul(u8),
    /// plain strings that LOOK like something else: a URL scheme in front of a relative path
    /// (`backup:content.jbkc`), `file:` forms, a scheme with a dot, a drive letter
    Colon(u8),
}

#[derive(Serialize, Deserialize, Clone, Debug, PartialEq, Eq)]
pub enum Op {
    Set { pack: u16, unknown: bool, loc: Loc },
    Reopen,
}

#[derive(Serialize, Deserialize, Clone, Debug)]
pub struct Case {
    pub packaging: Packaging,
    pub comp: Comp,
    pub contents: Vec<ContentSpec>,
    pub extra: Vec<ExtraPack>,
    pub history: Vec<Op>,
    /// Some(n): the container is assembled with the low-level creators, every content pack
    /// carrying n bytes of free data in the manifest (pack infos far from the manifest's start)
    #[serde(default)]
    pub lowlevel_free_data: Option<u32>,
    /// low-level assembly only: number of content packs the manifest declares before the directory pack
    #[serde(default)]
    pub dir_slot: u8,
    /// low-level assembly only: Some(n) = n content packs in all (pack infos across 64 KiB)
    #[serde(default)]
    pub many_packs: Option<u16>,
    /// low-level assembly only: the free data goes to the first content pack alone (so that its
    /// length moves the pack-info array of the manifest byte by byte)
    #[serde(default)]
    pub free_first_only: bool,
}

pub struct C12;

fn loc_string(l: &Loc, original: &str, current: &str) -> String {
    match l {
        Loc::Respell(k) => {
            let cur = if current.is_empty() { "dir/pack.jbkc" } else { current };
            let r = match k % 4 {
                0 if cur.contains('/') => cur.replacen('/', "//", 1),
                0 | 1 => format!("{cur}/"),
                2 => format!("./{cur}"),
                _ => format!("x/../{cur}"),
            };
            // stay admissible
            if r.len() <= 213 {
                r
            } else {
                cur.to_string()
            }
        }
        Loc::Empty => String::new(),
        Loc::Ascii(n) => {
            let n = (*n as usize).min(213);
            (0..n).map(|i| (b'a' + (i % 26) as u8) as char).collect()
        }
        Loc::Utf8(n) => {
            let n = (*n as usize).clamp(2, 213);
            // 'é' = 2 bytes, '€' = 3 bytes, '𝄞' = 4 bytes
            let mut s = String::new();
            let units = ["é", "€", "𝄞"];
            let mut k = 0;
            while s.len() + units[k % 3].len() <= n {
                s.push_str(units[k % 3]);
                k += 1;
            }
            while s.len() < n {
                s.push('x');
            }
            s
        }
        Loc::Nul(k) => match k % 5 {
            0 => "dir/pack.jbkc\0".to_string(),
            1 => "\0".to_string(),
            2 => "dir\0pack.jbkc".to_string(),
            3 => "p\0\0".to_string(),
            _ => "\0pack".to_string(),
        },
        Loc::Colon(k) => ["backup:content.jbkc", "packs.2024:v2/content.jbkc", "file:content.jbkc", "file:///abs/content.jbkc", "https://host/x.jbkc", "C:\\packs\\x.jbkc", "a+b-c.d:e"][*k as usize % 7].to_string(),
        Loc::DotDot => "../elsewhere/../pack.jbkc".to_string(),
        Loc::Original => original.to_string(),
    }
}

#[derive(Clone, Debug, PartialEq, Eq)]
struct InfoModel {
    uuid: [u8; 16],
    pack_id: u16,
    kind: u8,
    size: u64,
    location: String,
    original: String,
    block_abs: u64,
}

impl Property for C12 {
    type Case = Case;
    const ID: &'static str = "C12";

    fn rule() -> String {
        "stateful: proptest-generated histories (0..12 ops) of set_location{listed pack k | unknown uuid, location in {empty, ASCII 0..213 bytes, multi-byte UTF-8 of exactly n<=213 bytes (incl. 211, 212, 213), path with .., the original}} interleaved with reopen, over manifests standalone (NoConcat) or inside a container file at small and large offsets (OneFile, TwoFiles; contents of generated size in front of it), 2-4 packs listed. The interpreter applies each op with tools::set_location and to a model map uuid->location. Oracle after every op: return value Ok(Some((kind, previous location))) / Ok(None) with a byte-identical file for an unknown uuid; the file differs from its predecessor only inside bytes 38..256 of that pack-info block (offset from the independent decoder); ManifestPack::new succeeds and its pack infos equal the model (other fields unchanged); ManifestPack::check, ContainerPack::check and the independent decoder's own blake3/CRC verification succeed; when the directory pack is reachable Container::new succeeds, check() is true, entries equal the model and contents of reachable packs equal the model. Non-trivial = >=2 rewrites one of which targets a pack rewritten before, or a multi-byte location at the length limit, or a manifest at offset > 0; distinct by history shape. One case in five is assembled with the low-level creators (0/30/70 KB of free data per pack, the directory pack declared after 0..3 content packs); fixed cases: manifests of 270 and 300 packs (pack infos across the 64 KiB buffer the check is computed through), the location of every pack rewritten in turn. 301 further fixed cases move the pack-info array one byte at a time (one pack carrying 0..=300 bytes of free data). One container is kept open from before the first rewrite; after every rewrite a manifest parsed through it must read the locations written and verify. Locations also include strings holding U+0000 (at the end, alone, in the middle, twice, at the start): the byte the field is padded with. The same byte-by-byte sweep is made for manifests of 260 packs, whose pack-info array crosses the 64 KiB mark of the stream the check is computed through (86 cases, all 256 in the thorough tier). Locations also include strings that look like URLs or drive paths (backup:content.jbkc, file:..., https://..., C:\\...).".into()
    }

    fn cases(tier: Tier) -> u32 {
        match tier {
            Tier::Quick => 4800,
            Tier::Thorough => 150000,
        }
    }

    /// manifests listing hundreds of packs (the pack-info array crosses 64 KiB, the size of the
    /// buffer the check is computed through): the location of every pack in turn is rewritten
    fn fixed_cases(_tier: Tier) -> Vec<Case> {
        let mut v = vec![];
        for (n, dir_slot, free) in [(300u16, 0u8, 0u32), (270, 7, 100)] {
            let total = n as u32 + 1;
            let history = (0..total)
                .map(|k| Op::Set { pack: ((k * 65536 + total - 1) / total) as u16, unknown: false, loc: if k % 3 == 0 { Loc::Ascii((k % 214) as u8) } else { Loc::Utf8((k % 214) as u8) } })
                .collect();
            v.push(Case { packaging: Packaging::OneFile, comp: Comp::None, contents: vec![], extra: vec![], history, lowlevel_free_data: Some(free), dir_slot, many_packs: Some(n), free_first_only: false });
        }
        // the pack-info array at every position modulo its own size (256 bytes) and modulo the
        // 38/218 split of a pack info: one pack carries 0..=300 bytes of free data, which moves
        // the array one byte at a time (and takes the free-data store across a one-byte length);
        // each pack is relocated once, the first one twice
        for n in 0..=300u32 {
            let history = vec![
                Op::Set { pack: 0, unknown: false, loc: Loc::Ascii((n % 214) as u8) },
                Op::Set { pack: 30000, unknown: false, loc: Loc::Utf8((7 + n % 200) as u8) },
                Op::Set { pack: 65535, unknown: false, loc: Loc::Ascii(213) },
                Op::Set { pack: 0, unknown: false, loc: Loc::Original },
            ];
            v.push(Case {
                packaging: Packaging::OneFile,
                comp: Comp::None,
                contents: vec![],
                extra: vec![],
                history,
                lowlevel_free_data: Some(n),
                dir_slot: (n % 3) as u8,
                many_packs: None,
                free_first_only: true,
            });
        }
        // the same sweep for a pack-info array that crosses the 64 KiB mark of the stream the check
        // is computed through (260 packs): the mark falls on every byte of a pack info in turn.
        // The packs around the mark (and the first and last) are relocated.
        for n in (0..256u32).step_by(if _tier == Tier::Thorough { 1 } else { 3 }) {
            let total = 261u32;
            let at = |k: u32| ((k * 65536 + total - 1) / total) as u16;
            let history = [0u32, 250, 251, 252, 253, 254, 255, 256, 257, 260]
                .iter()
                .enumerate()
                .map(|(i, k)| Op::Set { pack: at(*k), unknown: false, loc: if i % 2 == 0 { Loc::Ascii((20 + n % 190) as u8) } else { Loc::Utf8((9 + n % 200) as u8) } })
                .collect();
            v.push(Case { packaging: Packaging::OneFile, comp: Comp::None, contents: vec![], extra: vec![], history, lowlevel_free_data: Some(n), dir_slot: (n % 2) as u8, many_packs: Some(260), free_first_only: true });
        }
        v
    }

    fn strategy(tier: Tier) -> BoxedStrategy<Case> {
        let loc = prop_oneof![
            1 => Just(Loc::Empty),
            3 => (0u8..=213).prop_map(Loc::Ascii),
            1 => Just(Loc::Ascii(213)),
            3 => (2u8..=213).prop_map(Loc::Utf8),
            1 => Just(Loc::Utf8(213)),
            1 => Just(Loc::Utf8(212)),
            1 => Just(Loc::Utf8(211)),
            1 => Just(Loc::DotDot),
            2 => Just(Loc::Original),
            2 => (0u8..4).prop_map(Loc::Respell),
            1 => (0u8..5).prop_map(Loc::Nul),
            1 => (0u8..7).prop_map(Loc::Colon),
        ];
        let op = prop_oneof![
            6 => (any::<u16>(), prop::bool::weighted(0.12), loc).prop_map(|(pack, unknown, loc)| Op::Set { pack, unknown, loc }),
            1 => Just(Op::Reopen),
        ];
        let max_ops = if tier == Tier::Thorough { 30 } else { 12 };
        (
            packaging_strategy(),
            comp_strategy(),
            small_content_seq_strategy(),
            prop::collection::vec((comp_strategy(), small_content_seq_strategy(), prop_oneof![3 => Just(0u8), 1 => 1u8..5]).prop_map(|(comp, contents, id_class)| ExtraPack { comp, contents, id_class, place: 0 }), 0..=2),
            prop::collection::vec(op, 0..max_ops),
        )
            .prop_map(|(packaging, comp, contents, extra, history)| {
                // one case in eight: low-level assembly with big free data (0, 30 KB or 70 KB per pack)
                let sel = history.len() as u32 * 7 + contents.len() as u32;
                let lowlevel_free_data = if sel % 5 == 3 { Some([0u32, 30_000, 70_000][(sel / 5 % 3) as usize]) } else { None };
                let dir_slot = (sel / 15 % 4) as u8;
                Case { packaging, comp, contents, extra, history, lowlevel_free_data, dir_slot, many_packs: None, free_first_only: false }
            })
            .boxed()
    }

    fn required_classes(_tier: Tier) -> Vec<&'static str> {
        vec!["manifest-at-offset>0", "manifest-standalone", "rewrite-twice-same-pack", "utf8-at-limit", "unknown-uuid", "relocate-directory-pack", "restore-original", "packs-listed:4", "lowlevel-container", "pack-infos-beyond-64KiB", "directory-pack-not-declared-first", "many-packs", "respelled-location", "pack-info-array-alignment-sweep", "location-with-nul-character", "location-looking-like-a-url"]
    }

    fn run(case: &Case, ctx: &Ctx) -> CaseResult {
        let mut info = CaseInfo::new();
        let spec = ContainerSpec {
            packaging: case.packaging,
            comp: case.comp,
            contents: case.contents.clone(),
            extra_packs: case.extra.clone(),
            dedup: false,
            dir: DirSpec::addresses_only(),
        };
        let dir = ctx.subdir("c12");
        let built = match case.lowlevel_free_data {
            None => build(&spec, &dir, "a.jbk", None)?,
            Some(n) => {
                info.class("lowlevel-container");
                if n >= 30_000 {
                    info.class("pack-infos-beyond-64KiB");
                }
                let mut packs = vec![(case.comp, case.contents.clone())];
                for e in &case.extra {
                    packs.push((e.comp, e.contents.clone()));
                }
                packs.push((Comp::None, vec![]));
                if let Some(many) = case.many_packs {
                    info.class("many-packs");
                    while packs.len() < many as usize {
                        packs.push((Comp::None, vec![]));
                    }
                }
                if case.dir_slot > 0 {
                    info.class("directory-pack-not-declared-first");
                }
                if case.free_first_only {
                    info.class("pack-info-array-alignment-sweep");
                    build_lowlevel_fd(&dir, "a.jbk", &packs, &|k| if k == 0 { n as usize } else { 0 }, &spec.dir, case.dir_slot as usize)?
                } else {
                    build_lowlevel(&dir, "a.jbk", &packs, n as usize, &spec.dir, case.dir_slot as usize)?
                }
            }
        };
        let path = built.main_path.clone();
        // model of the pack infos from the independent decoder
        let data0 = std::fs::read(&path).unwrap();
        let fd = match indep::decode_file(&data0) {
            Ok(f) => f,
            Err(e) => fail!("indep-layout", "independent decoder rejects the created file: {e}"),
        };
        let mi = fd.find_kind(b'm').ok_or_else(|| Failure::new("indep-layout", "no manifest in the entry-point file"))?;
        let mstart = fd.packs[mi].start;
        let indep::PackBody::Manifest(m) = &fd.packs[mi].body else { unreachable!() };
        let mut infos: Vec<InfoModel> = m
            .pack_infos
            .iter()
            .map(|p| {
                let l = String::from_utf8(p.location.clone()).unwrap();
                InfoModel { uuid: p.uuid, pack_id: p.pack_id, kind: p.pack_kind, size: p.pack_size, location: l.clone(), original: l, block_abs: mstart + p.block_off }
            })
            .collect();
        info.class(if mstart > 0 { "manifest-at-offset>0" } else { "manifest-standalone" });
        if mstart > 100_000 {
            info.class("manifest-at-large-offset");
        }
        info.class(format!("packs-listed:{}", infos.len()));
        // which packs live inside the entry-point file
        let inside: Vec<bool> = infos.iter().map(|i| fd.find_uuid(&i.uuid).is_some()).collect();
        let mut prev = data0;
        let mut rewritten: BTreeMap<usize, usize> = BTreeMap::new();
        let mut evals = 0u64;
        let mut nsets = 0;
        // a reader opened once, before the history, and kept open across every rewrite (an
        // application listing and relocating packs in one session): a manifest parsed again
        // through it after a rewrite must show what was written, like a fresh opening does
        let kept = jbk::tools::open_pack(&path).ok();
        let verify_state = |infos: &[InfoModel], data: &[u8], evals: &mut u64| -> Result<(), Failure> {
            // independent decoder: every CRC and the masked blake3 still verify
            let fd = match indep::decode_file(data) {
                Ok(f) => f,
                Err(e) => fail!("indep-rejects-after-rewrite", "independent decoder rejects the file after the rewrite: {e}"),
            };
            let indep::PackBody::Manifest(m) = &fd.packs[fd.find_kind(b'm').unwrap()].body else { unreachable!() };
            for (p, im) in m.pack_infos.iter().zip(infos.iter()) {
                ensure!(
                    p.uuid == im.uuid && p.pack_id == im.pack_id && p.pack_kind == im.kind && p.pack_size == im.size && p.location == im.location.as_bytes(),
                    "indep-packinfo-mismatch",
                    "independent decoder: pack info of pack {} reads location {:?}, model {:?}",
                    im.pack_id,
                    String::from_utf8_lossy(&p.location),
                    im.location
                );
            }
            // the library
            let cp = match jbk::tools::open_pack(&path) {
                Ok(c) => c,
                Err(e) => fail!("open-error", "open_pack after rewrite: {e}"),
            };
            let mr = match cp.get_manifest_pack_reader() {
                Ok(Some(r)) => r,
                other => fail!("open-error", "manifest reader after rewrite: {:?}", other.map(|o| o.is_some()).map_err(|e| e.to_string())),
            };
            let mp = match jbk::reader::ManifestPack::new(mr) {
                Ok(m) => m,
                Err(e) => fail!("manifest-unreadable", "ManifestPack::new after rewrite: {e}"),
            };
            for im in infos {
                let pi = if im.kind == b'd' {
                    mp.get_directory_pack_info().clone()
                } else {
                    match mp.get_content_pack_info(im.pack_id.into()) {
                        Some(p) => p.clone(),
                        None => fail!("packinfo-lost", "pack {} no longer listed", im.pack_id),
                    }
                };
                ensure!(
                    pi.uuid.as_bytes() == &im.uuid && pi.pack_id.into_u16() == im.pack_id && pi.pack_size.into_u64() == im.size,
                    "packinfo-other-field-changed",
                    "pack {}: uuid/id/size changed",
                    im.pack_id
                );
                ensure!(
                    pi.pack_location.as_str() == im.location,
                    "packinfo-location",
                    "pack {}: location read back {:?}, expected {:?}",
                    im.pack_id,
                    pi.pack_location.as_str(),
                    im.location
                );
            }
            match jbk::Pack::check(&mp) {
                Ok(true) => {}
                other => fail!("manifest-check", "ManifestPack::check after rewrite: {other:?}"),
            }
            if let Some(kept) = kept.as_ref() {
                let mr = match kept.get_manifest_pack_reader() {
                    Ok(Some(r)) => r,
                    other => fail!("kept-reader-error", "manifest reader of the container kept open across the rewrite: {:?}", other.map(|o| o.is_some()).map_err(|e| e.to_string())),
                };
                let kmp = match jbk::reader::ManifestPack::new(mr) {
                    Ok(m) => m,
                    Err(e) => fail!("kept-reader-error", "ManifestPack::new through the container kept open across the rewrite: {e}"),
                };
                for im in infos {
                    let loc = if im.kind == b'd' {
                        Some(kmp.get_directory_pack_info().pack_location.as_str().to_string())
                    } else {
                        kmp.get_content_pack_info(im.pack_id.into()).map(|p| p.pack_location.as_str().to_string())
                    };
                    ensure!(
                        loc.as_deref() == Some(im.location.as_str()),
                        "kept-reader-stale-location",
                        "pack {}: a manifest parsed after the rewrite through a container opened before it reads location {:?}, a fresh opening reads {:?}",
                        im.pack_id,
                        loc,
                        im.location
                    );
                }
                match jbk::Pack::check(&kmp) {
                    Ok(true) => {}
                    other => fail!("kept-reader-manifest-check", "ManifestPack::check through the container kept open across the rewrite: {other:?}"),
                }
            }
            match cp.check() {
                Ok(true) => {}
                other => fail!("containerpack-check", "ContainerPack::check after rewrite: {other:?}"),
            }
            *evals += 1;
            Ok(())
        };
        let verify_container_level = |infos: &[InfoModel], evals: &mut u64| -> Result<(), Failure> {
            // only meaningful when the directory pack can be reached
            let dirpack = infos.iter().position(|i| i.kind == b'd').unwrap();
            let reachable = |k: usize| inside[k] || infos[k].location == infos[k].original;
            if !reachable(dirpack) {
                return Ok(());
            }
            let c = match jbk::reader::Container::new(&path) {
                Ok(c) => c,
                Err(e) => fail!("container-unreadable", "Container::new after rewrite: {e}"),
            };
            for sm in &built.model.dir.stores {
                *evals += verify_store_against_model(c.get_directory_pack(), sm, "")?;
            }
            for (a, b) in &built.model.contents {
                let k = infos.iter().position(|i| i.kind == b'c' && i.pack_id == a.pack_id.into_u16()).unwrap();
                match read_content(&c, *a) {
                    ContentRead::Bytes(v) => ensure!(&v == b, "content-bytes", "content {a:?} differs after rewrite"),
                    ContentRead::Missing { .. } if !reachable(k) => {}
                    other => {
                        if reachable(k) {
                            fail!("content-unreadable", "content {a:?} of a reachable pack: {}", other.describe())
                        }
                    }
                }
                *evals += 1;
            }
            match c.check() {
                Ok(true) => {}
                other => fail!("container-check", "Container::check after rewrite: {other:?}"),
            }
            Ok(())
        };
        verify_state(&infos, &prev, &mut evals)?;
        verify_container_level(&infos, &mut evals)?;
        for (opi, op) in case.history.iter().enumerate() {
            match op {
                Op::Reopen => {
                    info.class("reopen");
                    verify_state(&infos, &prev, &mut evals)?;
                    verify_container_level(&infos, &mut evals)?;
                }
                Op::Set { pack, unknown, loc } => {
                    if *unknown {
                        info.class("unknown-uuid");
                        let uuid = uuid::Uuid::from_u128(0x1234_5678_9abc_def0_1122_3344_5566_7788u128 ^ (*pack as u128));
                        let newloc = loc_string(loc, "x", "x");
                        match jbk::tools::set_location(&path, uuid, newloc.as_str().into()) {
                            Ok(None) => {}
                            Ok(Some((_, old))) => fail!("unknown-uuid-rewritten", "op {opi}: unknown uuid rewrote a pack (old location {:?})", old.as_str()),
                            Err(e) => fail!("set-location-error", "op {opi}: set_location(unknown uuid) failed: {e}"),
                        }
                        let now = std::fs::read(&path).unwrap();
                        ensure!(now == prev, "unknown-uuid-changed-file", "op {opi}: naming a pack that is not in the manifest changed the file");
                        evals += 1;
                        continue;
                    }
                    let k = pick(*pack, infos.len());
                    let newloc = loc_string(loc, &infos[k].original, &infos[k].location);
                    if matches!(loc, Loc::Respell(_)) && newloc != infos[k].location {
                        info.class("respelled-location");
                    }
                    if matches!(loc, Loc::Colon(_)) {
                        info.class("location-looking-like-a-url");
                    }
                    if matches!(loc, Loc::Nul(_)) {
                        info.class("location-with-nul-character");
                    }
                    if matches!(loc, Loc::Utf8(n) if *n >= 211) {
                        info.class("utf8-at-limit");
                    }
                    if matches!(loc, Loc::Ascii(213)) {
                        info.class("ascii-at-limit");
                    }
                    if *loc == Loc::Original && infos[k].location != infos[k].original {
                        info.class("restore-original");
                    }
                    if infos[k].kind == b'd' {
                        info.class("relocate-directory-pack");
                    }
                    *rewritten.entry(k).or_default() += 1;
                    if rewritten[&k] >= 2 {
                        info.class("rewrite-twice-same-pack");
                    }
                    nsets += 1;
                    let uuid = uuid::Uuid::from_bytes(infos[k].uuid);
                    match jbk::tools::set_location(&path, uuid, newloc.as_str().into()) {
                        Ok(Some((kind, old))) => {
                            ensure!(
                                old.as_str() == infos[k].location,
                                "set-location-old-value",
                                "op {opi}: set_location returned previous location {:?}, model {:?}",
                                old.as_str(),
                                infos[k].location
                            );
                            let kchar = match infos[k].kind {
                                b'd' => "Directory",
                                b'c' => "Content",
                                _ => "Manifest",
                            };
                            ensure!(format!("{kind:?}") == kchar, "set-location-kind", "op {opi}: set_location returned kind {kind:?} for a {kchar} pack");
                        }
                        Ok(None) => fail!("set-location-none", "op {opi}: set_location does not find listed pack {}", infos[k].pack_id),
                        Err(e) => fail!("set-location-error", "op {opi}: set_location({:?}) failed: {e}", newloc),
                    }
                    infos[k].location = newloc;
                    let now = std::fs::read(&path).unwrap();
                    ensure!(now.len() == prev.len(), "file-size-changed", "op {opi}: file size changed from {} to {}", prev.len(), now.len());
                    let (lo, hi) = (infos[k].block_abs + 38, infos[k].block_abs + 256);
                    if let Some(p) = (0..now.len()).find(|i| now[*i] != prev[*i] && ((*i as u64) < lo || (*i as u64) >= hi)) {
                        fail!("write-outside-location", "op {opi}: byte {p} changed, outside the location+crc bytes [{lo},{hi}) of pack {}", infos[k].pack_id);
                    }
                    verify_state(&infos, &now, &mut evals)?;
                    verify_container_level(&infos, &mut evals)?;
                    prev = now;
                }
            }
        }
        // last: a DAMAGED pack description must not be laundered by a rewrite. One bit of the pack id
        // of a listed content pack is flipped (its block CRC is now wrong): whatever set_location
        // answers for that pack afterwards (there and back), the manifest either still refuses to
        // open or lists exactly what was written - never another pack list under a fresh CRC.
        if infos.len() <= 8 {
            if let Some(k) = infos.iter().position(|i| i.kind == b'c') {
                let mut bytes = prev.clone();
                bytes[infos[k].block_abs as usize + 32] ^= 0x02;
                std::fs::write(&path, &bytes).unwrap();
                let uuid = uuid::Uuid::from_bytes(infos[k].uuid);
                let first = jbk::tools::set_location(&path, uuid, "moved/elsewhere.jbkc".into());
                let second = jbk::tools::set_location(&path, uuid, infos[k].location.as_str().into());
                let listed: Result<Vec<(u16, String)>, String> = (|| {
                    let cp = jbk::tools::open_pack(&path).map_err(|e| e.to_string())?;
                    let mr = cp.get_manifest_pack_reader().map_err(|e| e.to_string())?.ok_or("no manifest")?;
                    let mp = jbk::reader::ManifestPack::new(mr).map_err(|e| e.to_string())?;
                    Ok(mp.get_pack_infos().iter().map(|p| (p.pack_id.into_u16(), p.uuid.to_string())).collect())
                })();
                if let Ok(l) = &listed {
                    let want: Vec<(u16, String)> = infos.iter().filter(|i| i.kind == b'c').map(|i| (i.pack_id, uuid::Uuid::from_bytes(i.uuid).to_string())).collect();
                    ensure!(
                        *l == want,
                        "damaged-pack-info-laundered",
                        "a bit of the pack id of pack {} was flipped in the manifest; after set_location there ({}) and back ({}) the manifest opens and lists {:?} instead of {:?}",
                        infos[k].pack_id,
                        if first.is_ok() { "Ok" } else { "Err" },
                        if second.is_ok() { "Ok" } else { "Err" },
                        l,
                        want
                    );
                }
                info.class(if listed.is_err() { "damaged-info:still-refused" } else { "damaged-info:reads-as-written" });
                evals += 1;
                std::fs::write(&path, &prev).unwrap();
            }
        }
        info.evals = evals.max(1);
        let has = |c: &str| info.classes.iter().any(|x| x == c);
        info.nontrivial = nsets >= 1 && (has("rewrite-twice-same-pack") || has("utf8-at-limit") || has("manifest-at-offset>0"));
        let shape: Vec<u8> = case
            .history
            .iter()
            .map(|o| match o {
                Op::Reopen => 0,
                Op::Set { unknown: true, .. } => 1,
                Op::Set { loc, pack, .. } => {
                    10 + (pick(*pack, infos.len()) as u8) * 8
                        + match loc {
                            Loc::Empty => 0,
                            Loc::Ascii(_) => 1,
                            Loc::Utf8(_) => 2,
                            Loc::DotDot => 3,
                            Loc::Original => 4,
                            Loc::Respell(_) => 5,
                            Loc::Nul(_) => 6,
                            Loc::Colon(_) => 7,
                        }
                }
            })
            .collect();
        info.key = hash_str(&format!("{:?}|{:?}|{}", case.packaging, shape, mstart > 0));
        Ok(info)
    }
}
