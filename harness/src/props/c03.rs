//! C03 — sorted stores follow the reader's order; lookup finds exactly what was written.

use super::c02::{run_dir_case, Case};
use crate::dirgen::*;
use crate::engine::*;
use crate::indep::DVal;
use crate::{ensure, fail};
use jubako as jbk;
use jbk::reader::{CompareTrait, Range};
use proptest::prelude::*;
use serde::{Deserialize, Serialize};
use std::cmp::Ordering;

#[derive(Serialize, Deserialize, Clone, Debug)]
pub enum C03Case {
    /// a generated sorted store, probed with present and absent keys
    Store { case: Case, probe_seed: u32 },
    /// the search itself, exhaustively: all windows and all probe positions over n entries
    SearchExhaustive { n: u32 },
    /// the search over a VIRTUAL store (entry i carries key 2i+1) through windows of up to 2^32-1
    /// entries anywhere in the index space: (offset selector, count selector, probe selectors)
    SearchHuge { off: u32, cnt: u32, probes: Vec<u32> },
}

pub struct C03;

struct VecCmp<'a> {
    values: &'a [u32],
    probe: u32,
    ordered: bool,
}

impl CompareTrait for VecCmp<'_> {
    fn ordered(&self) -> bool {
        self.ordered
    }
    fn compare_entry(&self, idx: jbk::EntryIdx) -> jbk::Result<Ordering> {
        Ok(self.values[idx.into_u32() as usize].cmp(&self.probe))
    }
}

fn absent_variants(v: &DVal) -> Vec<DVal> {
    match v {
        DVal::U(x) => vec![
            DVal::U(x.wrapping_add(1)),
            DVal::U(x.wrapping_sub(1)),
            DVal::U(0),
            DVal::U(u64::MAX),
            // same low bytes as a written key, beyond the width the column is stored with
            DVal::U(x.wrapping_add(1 << 8)),
            DVal::U(x.wrapping_add(1 << 16)),
            DVal::U(x.wrapping_add(1 << 32)),
            DVal::U(x | (1 << 63)),
        ],
        DVal::S(x) => vec![
            DVal::S(x.wrapping_add(1)),
            DVal::S(x.wrapping_sub(1)),
            DVal::S(i64::MIN),
            DVal::S(i64::MAX),
            DVal::S(x.wrapping_neg()),
            DVal::S(x.wrapping_add(1 << 8)),
            DVal::S(x.wrapping_sub(1 << 16)),
            DVal::S(x.wrapping_add(1 << 32)),
        ],
        DVal::A(a) => {
            let mut out = vec![];
            let mut y = a.clone();
            y.push(0);
            out.push(DVal::A(y)); // append 0x00
            let mut y = a.clone();
            y.pop();
            out.push(DVal::A(y)); // drop last byte
            let mut y = a.clone();
            if let Some(l) = y.last_mut() {
                *l = l.wrapping_add(1);
            }
            out.push(DVal::A(y)); // increment last byte
            let mut y = a.clone();
            y.push(0xff);
            out.push(DVal::A(y));
            out.push(DVal::A(vec![]));
            out.push(DVal::A(vec![0xff; 40]));
            out
        }
        v => vec![v.clone()],
    }
}

fn to_value(v: &DVal) -> jbk::Value {
    match v {
        DVal::U(x) => jbk::Value::Unsigned(*x),
        DVal::S(x) => jbk::Value::Signed(*x),
        DVal::A(x) => jbk::Value::Array(x.clone().into()),
        DVal::C(p, c) => jbk::Value::Content(jbk::ContentAddress::new((*p).into(), (*c).into())),
    }
}

/// lookup through the library's own comparator (`AnyBuilder::new_multiple_property_compare`)
fn library_find(oi: &OpenIndex, key: &[(&'static str, DVal)]) -> Result<Option<usize>, String> {
    let names: Vec<String> = key.iter().map(|k| k.0.to_string()).collect();
    let values: Vec<jbk::Value> = key.iter().map(|k| to_value(&k.1)).collect();
    let cmp = oi.builder.new_multiple_property_compare(names, values);
    oi.index.find(&cmp).map(|g| g.map(|x| x.into_u32() as usize)).map_err(|e| e.to_string())
}

fn key_cmp(a: &[(&'static str, DVal)], b: &[(&'static str, DVal)]) -> Ordering {
    for (x, y) in a.iter().zip(b.iter()) {
        let o = cmp_dval(&x.1, &y.1);
        if o != Ordering::Equal {
            return o;
        }
    }
    Ordering::Equal
}

impl Property for C03 {
    type Case = C03Case;
    const ID: &'static str = "C03";

    fn rule() -> String {
        "(i) proptest-generated sorted stores: 1-3 sort keys over unsigned/signed/array properties, keys built from a shared pool (shared prefixes shorter/equal/longer than the inline prefix, 0x00/0xff, empty key, lengths to 65 KiB), inline prefix 0..31, plain and indexed stores, 1..600 distinct keys (thousands in the thorough tier), 1-4 windows; probes = present keys (all or 48 sampled per window) and absent keys derived from present ones (append 0x00 / drop last byte / increment last byte / +-1 / extremes). Oracle: stored order is non-decreasing under the reader's comparison and equals the model's independently sorted order; find() with ordered()=true and =false returns an entry carrying the key iff the model has the key inside the window, and both modes agree. (ii) the search itself exhaustively: every strictly increasing sequence shape of n=0..12 entries x every window (offset,count) x every probe position (each element, each gap, below, above) x both modes through RangeTrait::find on EntryRange. Non-trivial (i) = >=3 keys with two sharing the inline prefix and differing after it, or a key that is a proper prefix of another, or a multi-property key, or a window not starting at 0; (ii) every n>=1; distinct by (classes, schema, key count). Values are also looked up through the library's PropertyCompare on ONE column the store is not sorted on: the answer must be the first entry of the window carrying the value (the comparator announces an unordered column, so the search is linear).".into()
    }

    fn cases(tier: Tier) -> u32 {
        match tier {
            Tier::Quick => 12000,
            Tier::Thorough => 500000,
        }
    }

    fn strategy(tier: Tier) -> BoxedStrategy<C03Case> {
        let dir = match tier {
            Tier::Quick => prop_oneof![
                10 => dir_strategy(SizeClass::Small, SortMode::Always, false, false),
                2 => dir_strategy(SizeClass::Medium, SortMode::Always, false, false),
            ]
            .boxed(),
            Tier::Thorough => prop_oneof![
                100 => dir_strategy(SizeClass::Small, SortMode::Always, false, false),
                20 => dir_strategy(SizeClass::Medium, SortMode::Always, false, false),
                1 => dir_strategy(SizeClass::Large, SortMode::Always, false, false),
            ]
            .boxed(),
        };
        let store = (dir, any::<u32>()).prop_map(|(dir, probe_seed)| C03Case::Store { case: Case { packaging: None, dir }, probe_seed });
        let huge = (any::<u32>(), prop_oneof![2 => any::<u32>(), 2 => 0x8000_0000u32..=u32::MAX, 1 => Just(u32::MAX)], prop::collection::vec(any::<u32>(), 0..12)).prop_map(|(off, cnt, probes)| {
            // windows that end anywhere up to the top of the index space
            let off = if cnt > u32::MAX - off { u32::MAX - cnt } else { off };
            C03Case::SearchHuge { off, cnt, probes }
        });
        prop_oneof![30 => store, 1 => huge].boxed()
    }

    fn fixed_cases(_tier: Tier) -> Vec<C03Case> {
        let mut v: Vec<C03Case> = (0..=12).map(|n| C03Case::SearchExhaustive { n }).collect();
        let probes = vec![0, 1, u32::MAX, u32::MAX / 2, u32::MAX / 3, 0x8000_0000, 0xC000_0000, 12345];
        for (off, cnt) in [(0u32, u32::MAX), (0, 0x8000_0000), (0, 0x8000_0001), (1, u32::MAX - 1), (0x4000_0000, 0xBFFF_FFFF), (0x7FFF_FFFF, 0x8000_0000), (u32::MAX - 5, 5), (u32::MAX, 0), (0xFFFF_0000, 0xFFFF), (0, 0xC000_0000), (3, 0xF000_0000)] {
            v.push(C03Case::SearchHuge { off, cnt, probes: probes.clone() });
        }
        v
    }

    fn required_classes(_tier: Tier) -> Vec<&'static str> {
        vec!["sorted", "multi-key", "shared-inline-prefix", "key-is-prefix-of-another", "sub-window", "sort-moved-entries", "search-exhaustive", "search-window>2^31", "search-window-ends-at-u32-max", "probe-absent", "probe-present", "probe-unsorted-column"]
    }

    fn run(case: &C03Case, ctx: &Ctx) -> CaseResult {
        let mut info = CaseInfo::new();
        match case {
            C03Case::SearchHuge { off, cnt, probes } => {
                info.class("search-huge-window");
                let off = *off as u64;
                let cnt = (*cnt as u64).min(u32::MAX as u64 - off);
                if cnt > 1 << 31 {
                    info.class("search-window>2^31");
                }
                if off + cnt == u32::MAX as u64 {
                    info.class("search-window-ends-at-u32-max");
                }
                let range = jbk::EntryRange::new_from_size(jbk::EntryIdx::from(off as u32), jbk::EntryCount::from(cnt as u32));
                // entry i of the store carries key 2i+1; probe key k
                struct Virtual {
                    key: u64,
                    calls: std::cell::Cell<u32>,
                }
                impl jbk::reader::CompareTrait for Virtual {
                    fn ordered(&self) -> bool {
                        true
                    }
                    fn compare_entry(&self, idx: jbk::EntryIdx) -> jbk::Result<Ordering> {
                        self.calls.set(self.calls.get() + 1);
                        // a binary search over < 2^32 entries needs at most 33 probes
                        assert!(self.calls.get() < 200, "binary search does not terminate (200 probes for key {})", self.key);
                        Ok((2 * idx.into_u32() as u64 + 1).cmp(&self.key))
                    }
                }
                let mut evals = 0u64;
                let mut keys: Vec<u64> = vec![0, 1, 2 * off, 2 * off + 1, 2 * off + 2, 2 * (off + cnt), 2 * (off + cnt) + 1, (2 * (off + cnt)).saturating_sub(1), 2 * (off + cnt / 2) + 1, 2 * (off + cnt / 2), 2 * (off + cnt - cnt / 4) + 1, 2 * u32::MAX as u64 + 1];
                for p in probes {
                    // anywhere in the window (odd = present) and its even neighbour (absent)
                    let i = off + if cnt == 0 { 0 } else { (*p as u64 * cnt) >> 32 };
                    keys.push(2 * i + 1);
                    keys.push(2 * i);
                }
                for key in keys {
                    let expected = if key % 2 == 1 && (key - 1) / 2 >= off && (key - 1) / 2 < off + cnt { Some(((key - 1) / 2 - off) as u32) } else { None };
                    let cmp = Virtual { key, calls: std::cell::Cell::new(0) };
                    let got = match range.find(&cmp) {
                        Ok(g) => g.map(|i| i.into_u32()),
                        Err(e) => fail!("find-error", "find returned an error: {e}"),
                    };
                    ensure!(got == expected, "find-ordered-wrong", "virtual store, window=({off},{cnt}) key={key}: find = {got:?}, expected {expected:?} ({} probes)", cmp.calls.get());
                    ensure!(cmp.calls.get() <= 34, "find-ordered-too-many-probes", "virtual store, window=({off},{cnt}) key={key}: {} comparisons for a binary search", cmp.calls.get());
                    evals += 1;
                }
                info.evals = evals;
                info.nontrivial = cnt >= 1;
                info.key = hash_str(&format!("huge|{}|{}", off >> 20, cnt >> 20));
                Ok(info)
            }
            C03Case::SearchExhaustive { n } => {
                info.class("search-exhaustive");
                let n = *n;
                // values 1,3,5,...: gaps are the even numbers
                let values: Vec<u32> = (0..n).map(|i| 2 * i + 1).collect();
                let mut evals = 0u64;
                for off in 0..=n {
                    for cnt in 0..=(n - off) {
                        let range = jbk::EntryRange::new_from_size(jbk::EntryIdx::from(off), jbk::EntryCount::from(cnt));
                        for probe in 0..=(2 * n + 1) {
                            let expected = if probe % 2 == 1 {
                                let i = (probe - 1) / 2;
                                if i >= off && i < off + cnt {
                                    Some(i - off)
                                } else {
                                    None
                                }
                            } else {
                                None
                            };
                            for ordered in [true, false] {
                                let cmp = VecCmp { values: &values, probe, ordered };
                                let got = match range.find(&cmp) {
                                    Ok(g) => g.map(|i| i.into_u32()),
                                    Err(e) => fail!("find-error", "find returned an error: {e}"),
                                };
                                ensure!(
                                    got == expected,
                                    if ordered { "find-ordered-wrong" } else { "find-linear-wrong" },
                                    "n={n} window=({off},{cnt}) probe={probe} ordered={ordered}: find = {got:?}, expected {expected:?}"
                                );
                                evals += 1;
                            }
                        }
                    }
                }
                info.evals = evals.max(1);
                info.nontrivial = n >= 1;
                info.key = hash_str(&format!("search{n}"));
                Ok(info)
            }
            C03Case::Store { case, probe_seed } => {
                let (model, path) = run_dir_case(case, ctx, &mut info)?;
                let Some(path) = path else {
                    return Ok(info);
                };
                let dp = match open_directory_pack(&path) {
                    Ok(d) => d,
                    Err(e) => fail!("dir-unreadable", "{e}"),
                };
                let estorage = dp.create_entry_storage();
                let vstorage = dp.create_value_storage();
                let mut evals = info.evals;
                let mut rng = *probe_seed as u64 | 1;
                let mut next = move || {
                    rng ^= rng << 13;
                    rng ^= rng >> 7;
                    rng ^= rng << 17;
                    rng
                };
                for sm in &model.stores {
                    if !sm.sorted {
                        continue;
                    }
                    let n = sm.entries.len();
                    // classes about the key set
                    let keys: Vec<Vec<(&'static str, DVal)>> = (0..n).map(|p| sm.sort_key_at(p)).collect();
                    for k in &sm.schema.sort {
                        let prop = &sm.schema.common[*k];
                        if let PKind::Array { fixed, .. } = prop.kind {
                            let mut arrays: Vec<&Vec<u8>> = sm.entries.iter().filter_map(|e| if let Some(DVal::A(a)) = e.vals.get(prop.name) { Some(a) } else { None }).collect();
                            arrays.sort();
                            arrays.dedup();
                            let f = fixed as usize;
                            for w in arrays.windows(2) {
                                if w[0].len() >= f && w[1].len() >= f && w[0][..f] == w[1][..f] && w[0] != w[1] && n >= 3 {
                                    info.class("shared-inline-prefix");
                                }
                                if w[1].starts_with(w[0]) && w[0].len() < w[1].len() {
                                    info.class("key-is-prefix-of-another");
                                }
                            }
                        }
                    }
                    // 1. the stored order is non-decreasing under the reader's comparison
                    let whole = sm.windows.iter().find(|(_, o, c)| *o == 0 && *c == n);
                    for (wname, off, cnt) in &sm.windows {
                        let oi = match open_index(&dp, &|ix| ix.get_store(&estorage), &vstorage, wname) {
                            Ok(o) => o,
                            Err(e) => fail!("store-unreadable", "index {wname}: {e}"),
                        };
                        // pairwise order with the reader's comparator: entry i vs key of entry i+1
                        if whole.map_or(true, |w| &w.0 == wname) {
                            for i in 0..cnt.saturating_sub(1) {
                                let next_key = keys[off + i + 1].clone();
                                let c = KeyCmp { builder: &oi.builder, keys: next_key, ordered: true };
                                match c.compare_entry(jbk::EntryIdx::from((off + i) as u32)) {
                                    Ok(Ordering::Less) => {}
                                    Ok(o) => fail!("stored-order", "index {wname}: entry {i} compares {o:?} to the key of entry {}: not strictly increasing", i + 1),
                                    Err(e) => fail!("compare-error", "compare error: {e}"),
                                }
                                evals += 1;
                            }
                        }
                        // 2. present probes
                        let idxs: Vec<usize> = if *cnt <= 48 { (0..*cnt).collect() } else { (0..48).map(|_| (next() % *cnt as u64) as usize).collect() };
                        for i in idxs {
                            info.class("probe-present");
                            let key = keys[off + i].clone();
                            let mut answers = vec![];
                            for ordered in [true, false] {
                                let c = KeyCmp { builder: &oi.builder, keys: key.clone(), ordered };
                                let got = match oi.index.find(&c) {
                                    Ok(g) => g.map(|x| x.into_u32() as usize),
                                    Err(e) => fail!("find-error", "find error: {e}"),
                                };
                                ensure!(
                                    got == Some(i),
                                    if ordered { "find-present-ordered" } else { "find-present-linear" },
                                    "index {wname} window=({off},{cnt}): find(key of entry {i} = {:?}, ordered={ordered}) = {got:?}",
                                    key
                                );
                                answers.push(got);
                                evals += 1;
                            }
                            ensure!(answers[0] == answers[1], "find-modes-disagree", "ordered and linear search disagree");
                            match library_find(&oi, &key) {
                                Ok(got) => ensure!(got == Some(i), "find-present-library-compare", "index {wname} window=({off},{cnt}): lookup of the key of entry {i} through PropertyCompare = {got:?}"),
                                Err(e) => fail!("find-error", "PropertyCompare lookup: {e}"),
                            }
                        }
                        // 3. absent probes derived from present ones (and present-outside-window)
                        let nprobe = if n == 0 { 0 } else { 24.min(8 * n) };
                        for _ in 0..nprobe {
                            let base = &keys[(next() % n as u64) as usize];
                            let last = base.len() - 1;
                            let variants = absent_variants(&base[last].1);
                            let v = variants[(next() % variants.len() as u64) as usize].clone();
                            let mut key = base.clone();
                            key[last].1 = v;
                            // expected from the model
                            let expected = (0..*cnt).find(|i| key_cmp(&keys[off + i], &key) == Ordering::Equal);
                            if expected.is_none() {
                                info.class("probe-absent");
                            }
                            for ordered in [true, false] {
                                let c = KeyCmp { builder: &oi.builder, keys: key.clone(), ordered };
                                let got = match oi.index.find(&c) {
                                    Ok(g) => g.map(|x| x.into_u32() as usize),
                                    Err(e) => fail!("find-error", "find error: {e}"),
                                };
                                ensure!(
                                    got == expected,
                                    if ordered { "find-absent-ordered" } else { "find-absent-linear" },
                                    "index {wname} window=({off},{cnt}): find({:?}, ordered={ordered}) = {got:?}, model says {expected:?}",
                                    key
                                );
                                evals += 1;
                            }
                            match library_find(&oi, &key) {
                                Ok(got) => ensure!(got == expected, "find-absent-library-compare", "index {wname} window=({off},{cnt}): lookup of {:?} through PropertyCompare = {got:?}, model says {expected:?}", key),
                                Err(e) => fail!("find-error", "PropertyCompare lookup: {e}"),
                            }
                        }
                        // 4. lookup by ONE property that the store is not (primarily) sorted on, through the
                        // library's comparator: it announces an unordered column, so the search has to be
                        // linear and returns the first entry of the window carrying the value
                        if let Some(prop) = sm
                            .schema
                            .common
                            .iter()
                            .enumerate()
                            .find(|(k, p)| sm.schema.sort.first() != Some(k) && matches!(p.kind, PKind::UInt | PKind::SInt | PKind::Array { .. }))
                            .map(|(_, p)| p)
                        {
                            let col: Vec<DVal> = (0..*cnt).map(|i| sm.expected_at(off + i).1[prop.name].clone()).collect();
                            for _ in 0..6.min(*cnt) {
                                let i = (next() % *cnt as u64) as usize;
                                let expected = col.iter().position(|v| cmp_dval(v, &col[i]) == Ordering::Equal);
                                match library_find(&oi, &[(prop.name, col[i].clone())]) {
                                    Ok(got) => ensure!(
                                        got == expected,
                                        "find-by-unsorted-column-library-compare",
                                        "index {wname} window=({off},{cnt}): lookup of {}={:?} (value of entry {i}; the store is not sorted on it) through PropertyCompare = {got:?}, first entry carrying it is {expected:?}",
                                        prop.name,
                                        col[i]
                                    ),
                                    Err(e) => fail!("find-error", "PropertyCompare lookup: {e}"),
                                }
                                info.class("probe-unsorted-column");
                                evals += 1;
                            }
                        }
                        // keys of entries outside the window must not be found in it
                        if *cnt < n {
                            let outside: Vec<usize> = (0..n).filter(|p| *p < *off || *p >= off + cnt).collect();
                            for _ in 0..4.min(outside.len()) {
                                let p = outside[(next() % outside.len() as u64) as usize];
                                for ordered in [true, false] {
                                    let c = KeyCmp { builder: &oi.builder, keys: keys[p].clone(), ordered };
                                    let got = match oi.index.find(&c) {
                                        Ok(g) => g,
                                        Err(e) => fail!("find-error", "find error: {e}"),
                                    };
                                    ensure!(got.is_none(), "find-outside-window", "index {wname} window=({off},{cnt}): key of store position {p} found at {:?} (ordered={ordered})", got.map(|x| x.into_u32()));
                                    evals += 1;
                                }
                            }
                        }
                    }
                }
                info.evals = evals.max(1);
                let nkeys: usize = model.stores.iter().filter(|s| s.sorted).map(|s| s.entries.len()).max().unwrap_or(0);
                let has = |c: &str| info.classes.iter().any(|x| x == c);
                info.nontrivial = (nkeys >= 3 && has("shared-inline-prefix")) || has("key-is-prefix-of-another") || (has("multi-key") && nkeys >= 2) || (has("sub-window") && nkeys >= 2);
                let schema_sig: Vec<String> = model.stores.iter().map(|s| format!("{:?}|{:?}|{}", s.schema.common.iter().map(|p| p.kind).collect::<Vec<_>>(), s.schema.sort, s.entries.len())).collect();
                info.key = hash_str(&format!("{:?}|{:?}", info.classes, schema_sig));
                Ok(info)
            }
        }
    }
}
