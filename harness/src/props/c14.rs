//! C14 — written bytes follow the documented layout; old files keep reading the same.

use crate::container::*;
use crate::dirgen::*;
use crate::engine::*;
use crate::gen::*;
use crate::indepcheck::*;
use crate::{ensure, fail};
use jubako as jbk;
use proptest::prelude::*;
use proptest::strategy::ValueTree;
use serde::{Deserialize, Serialize};
use std::path::{Path, PathBuf};

pub fn corpus() -> String {
    format!("{}/corpus", crate::engine::verif_dir())
}

#[derive(Serialize, Deserialize, Clone, Debug)]
pub enum Case {
    /// (a) a generated container decoded by the independent decoder
    Generated(ContainerSpec),
    /// (b) a file set of the committed reference corpus read by the current reader
    Corpus(String),
    /// (a') a container assembled with the low-level creators: `packs` content packs in one file,
    /// each with its own free data (manifest value store with more than 256 values when packs > 256)
    ManyPacks { packs: u16, comp: Comp },
}

#[derive(Serialize, Deserialize, Clone, Debug)]
pub struct Expected {
    pub spec: ContainerSpec,
    pub main: String,
    pub files: Vec<String>,
    pub dump: Dump,
    pub index_names: Vec<String>,
    pub addresses: Vec<(u16, u32)>,
    pub produced_by: String,
}

pub struct C14;

fn spec_strategy() -> BoxedStrategy<ContainerSpec> {
    container_strategy(
        2,
        prop_oneof![
            6 => dir_strategy(SizeClass::Small, SortMode::Sometimes, true, true),
            3 => dir_strategy(SizeClass::Small, SortMode::Sometimes, true, false),
            1 => dir_strategy(SizeClass::Medium, SortMode::Sometimes, true, true),
        ]
        .boxed(),
    )
}

fn classify_spec(info: &mut CaseInfo, spec: &ContainerSpec, model: &ContainerModel) {
    info.class(format!("packaging:{:?}", spec.packaging));
    info.class(format!("comp:{}", spec.comp.name()));
    info.class(format!("extra-packs:{}", spec.extra_packs.len()));
    for c in shape_classes(&model.dir, &spec.dir) {
        info.class(c);
    }
    if spec.dedup {
        info.class("dedup");
    }
}

/// `jbkv gen-corpus <outdir> <count>`: run against the PINNED tree (scratch worktree), see DESIGN 6/C14.
pub fn gen_corpus(outdir: &Path, count: usize, produced_by: &str) -> i32 {
    install_panic_hook();
    std::fs::create_dir_all(outdir).unwrap();
    let mut runner = proptest::test_runner::TestRunner::new_with_rng(
        proptest::test_runner::Config::default(),
        proptest::test_runner::TestRng::from_seed(proptest::test_runner::RngAlgorithm::ChaCha, &[14u8; 32]),
    );
    let strat = spec_strategy();
    let mut kept = 0;
    let mut skipped: std::collections::BTreeMap<String, usize> = Default::default();
    let mut total_bytes = 0u64;
    let mut tries = 0;
    let mut seen_classes: std::collections::BTreeSet<String> = Default::default();
    while kept < count && tries < count * 40 {
        tries += 1;
        let mut spec = strat.new_tree(&mut runner).unwrap().current();
        // spread packagings and compressions evenly
        spec.packaging = Packaging::ALL[tries % 3];
        spec.comp = [Comp::None, Comp::Lz4(3), Comp::Lzma(6), Comp::Zstd(5), Comp::Zstd(-3), Comp::Lz4(12)][(tries / 3) % 6];
        let name = format!("ref{:03}", kept);
        let dir = outdir.join(&name);
        let _ = std::fs::remove_dir_all(&dir);
        std::fs::create_dir_all(&dir).unwrap();
        let _ = take_panic();
        let built = std::panic::catch_unwind(std::panic::AssertUnwindSafe(|| build(&spec, &dir, "a.jbk", None)));
        let built = match built {
            Ok(Ok(b)) => b,
            Ok(Err(f)) => {
                *skipped.entry(f.sig).or_default() += 1;
                let _ = std::fs::remove_dir_all(&dir);
                continue;
            }
            Err(_) => {
                *skipped.entry(format!("panic:{}", normalize_sig(&take_panic().unwrap_or_default()))).or_default() += 1;
                let _ = std::fs::remove_dir_all(&dir);
                continue;
            }
        };
        // keep only what the pinned writer wrote correctly (independent decoder == model)
        if let Err(f) = verify_indep_container(&dir, "a.jbk", &built.model, false) {
            *skipped.entry(f.sig).or_default() += 1;
            let _ = std::fs::remove_dir_all(&dir);
            continue;
        }
        let size: u64 = built.files.iter().map(|f| std::fs::metadata(dir.join(f)).unwrap().len()).sum();
        let mut info = CaseInfo::new();
        classify_spec(&mut info, &spec, &built.model);
        let fresh = info.classes.iter().any(|c| !seen_classes.contains(c));
        // size budget: ~1.5 MiB overall; prefer cases bringing new classes
        if size > 120_000 || (total_bytes > 1_200_000 && !fresh) {
            *skipped.entry("size-budget".into()).or_default() += 1;
            let _ = std::fs::remove_dir_all(&dir);
            continue;
        }
        for c in &info.classes {
            seen_classes.insert(c.clone());
        }
        let (dump, index_names, addresses) = model_dump(&built.model);
        let exp = Expected { spec, main: "a.jbk".into(), files: built.files.clone(), dump, index_names, addresses, produced_by: produced_by.to_string() };
        std::fs::write(dir.join("expected.json"), serde_json::to_vec(&exp).unwrap()).unwrap();
        total_bytes += size;
        kept += 1;
    }
    println!("corpus: kept {kept} containers, {total_bytes} bytes, {tries} tries; skipped: {skipped:?}");
    println!("classes: {:?}", seen_classes);
    0
}

fn corpus_names() -> Vec<String> {
    let mut v: Vec<String> = std::fs::read_dir(corpus())
        .map(|d| d.filter_map(|e| e.ok()).filter(|e| e.path().join("expected.json").is_file()).map(|e| e.file_name().to_string_lossy().to_string()).collect())
        .unwrap_or_default();
    v.sort();
    v
}

impl Property for C14 {
    type Case = Case;
    const ID: &'static str = "C14";

    fn rule() -> String {
        "(a) proptest-generated containers (contents, 0..2 extra packs, dedup, directories with every property kind, variants, sorted/unsorted stores, references, 1-2 entry stores, plain/indexed/shared value stores; 3 packagings x 4 compressions) written by the current creator; every file is decoded by the independent decoder (no jubako code: own CRC, own little-endian readers, blake3/lz4/xz2/zstd crates), which asserts the layout (header/tail mirror, reserved bytes, every block CRC, pack sizes, check blocks incl. the manifest mask, locators == located headers, pack infos == listed packs incl. copied check info and locations, cluster tails and placement, key-type nibbles, padding, variant grouping, store tails) and must recover exactly the model (entries of every store, contents of every pack). (b) every container of the committed reference corpus (/verif/corpus, written by the pinned version fc3306d and kept only where the independent decoder confirmed the pinned writer wrote the model) is read with the CURRENT reader: its logical dump must equal the committed expected dump and check() must be true. Non-trivial = (a) a container with >=1 content and >=1 entry, (b) every corpus container; distinct by (packaging, compression, schema classes, sizes) / corpus name. Many-packs containers (3, 255, 300 packs, low-level creators): every header (container, content packs, directory, manifest) carries distinct non-default free data which the independent decoder must find; the manifest opened on its own returns every pack's free data by id and by uuid.".into()
    }

    fn assumptions() -> Vec<String> {
        vec![
            "the independent decoder follows spec/*.rst except for the divergences listed in DESIGN.md 3 (where the pinned bytes, confirmed by a separate Python decode, are authoritative)".into(),
            "corpus files carry the pinned (5 bytes short) container size; they are read through the head-of-file path".into(),
        ]
    }

    fn cases(tier: Tier) -> u32 {
        match tier {
            Tier::Quick => 3200,
            Tier::Thorough => 100000,
        }
    }

    fn strategy(_tier: Tier) -> BoxedStrategy<Case> {
        spec_strategy().prop_map(Case::Generated).boxed()
    }

    fn fixed_cases(_tier: Tier) -> Vec<Case> {
        let mut v: Vec<Case> = corpus_names().into_iter().map(Case::Corpus).collect();
        v.push(Case::ManyPacks { packs: 3, comp: Comp::None });
        v.push(Case::ManyPacks { packs: 255, comp: Comp::None });
        v.push(Case::ManyPacks { packs: 300, comp: Comp::Zstd(3) });
        v
    }

    fn required_classes(_tier: Tier) -> Vec<&'static str> {
        vec![
            "corpus",
            "generated",
            "packaging:OneFile",
            "packaging:TwoFiles",
            "packaging:NoConcat",
            "comp:none",
            "comp:lz4",
            "comp:lzma",
            "comp:zstd",
            "variants",
            "sorted",
            "has-refs",
            "vstore:Plain",
            "vstore:Indexed",
            "kind:content",
            "kind:sint",
            "extra-packs:2",
            "corpus:packaging:TwoFiles",
            "corpus:comp:lzma",
            "corpus:variants",
            "many-packs",
            "free-data-id>=256",
        ]
    }

    fn run(case: &Case, ctx: &Ctx) -> CaseResult {
        let mut info = CaseInfo::new();
        match case {
            Case::Generated(spec) => {
                info.class("generated");
                let dir = ctx.subdir("c14");
                let built = build(spec, &dir, "a.jbk", None)?;
                classify_spec(&mut info, spec, &built.model);
                info.evals = verify_indep_container(&dir, "a.jbk", &built.model, true)?.max(1);
                let nentries: usize = built.model.dir.stores.iter().map(|s| s.entries.len()).sum();
                info.nontrivial = !built.model.contents.is_empty() && nentries > 0;
                let mut cls = info.classes.clone();
                cls.sort();
                info.key = hash_str(&format!("{:?}|{}|{}", cls, built.model.contents.len(), nentries));
                Ok(info)
            }
            Case::ManyPacks { packs, comp } => {
                info.class("many-packs");
                let dir = ctx.subdir("c14many");
                let path = jbk::Utf8PathBuf::from_path_buf(dir.join("a.jbk")).unwrap();
                let io = |e: std::io::Error| Failure::new("create-error", format!("many-packs container: {e}"));
                let jb = |e: jbk::creator::Error| Failure::new("create-error", format!("many-packs container: {e}"));
                // application bytes of every header are set (never the default) and looked for by the
                // independent decoder at their documented place
                let fdb = |kind: u8, k: u16| -> [u8; 24] {
                    let mut b = [0u8; 24];
                    for (i, x) in b.iter_mut().enumerate() {
                        *x = kind ^ (i as u8).wrapping_mul(7) ^ (k as u8) ^ ((k >> 8) as u8).wrapping_mul(31) | 1;
                    }
                    b
                };
                let mut container = jbk::creator::ContainerPackCreator::new(&path, fdb(b'C', 0).into()).map_err(io)?;
                let mut contents: Vec<(jbk::ContentAddress, Vec<u8>)> = vec![];
                let mut datas = vec![];
                for k in 0..*packs {
                    let file = container.into_file().map_err(io)?;
                    let mut cp = jbk::creator::ContentPackCreator::new_from_output(file, jbk::PackId::from(k + 1), vendor(), fdb(b'c', k).into(), comp.to_jbk()).map_err(io)?;
                    let b = content_bytes(k as u32 + 77, 5 + (k % 40) as usize, Entropy::Text);
                    let a = cp.add_content(Box::new(std::io::Cursor::new(b.clone())), jbk::creator::CompHint::Detect).map_err(io)?;
                    contents.push((a, b));
                    let (file, mut data) = cp.finalize().map_err(io)?;
                    // application specific free data of the pack, stored in the manifest's value store
                    data.free_data = format!("free-data-of-pack-{k:05}").into_bytes();
                    container = file.close(data.uuid).map_err(io)?;
                    datas.push(data);
                }
                let addresses: Vec<(u16, u32)> = contents.iter().map(|(a, _)| (a.pack_id.into_u16(), a.content_id.into_u32())).collect();
                let dmodel = build_model(&DirSpec::addresses_only(), &addresses);
                let mut dp = jbk::creator::DirectoryPackCreator::new(jbk::PackId::from(0), vendor(), fdb(b'd', 0).into());
                build_dir(&dmodel).install(&mut dp);
                let fin = dp.finalize().map_err(io)?;
                let mut file = container.into_file().map_err(io)?;
                let mut dir_data = fin.write(&mut file).map_err(jb)?;
                // with an odd number of packs the directory pack carries free data too: then NO pack of
                // the manifest is without, and the empty value is not in the manifest's value store
                let dir_free: Vec<u8> = if *packs % 2 == 1 { b"free data of the directory pack".to_vec() } else { vec![] };
                dir_data.free_data = dir_free.clone();
                container = file.close(dir_data.uuid).map_err(io)?;
                let mut manifest = jbk::creator::ManifestPackCreator::new(vendor(), fdb(b'm', 0).into());
                manifest.add_pack(dir_data, "");
                for d in datas {
                    manifest.add_pack(d, "");
                }
                let mut file = container.into_file().map_err(io)?;
                let muuid = manifest.finalize(&mut file).map_err(jb)?;
                container = file.close(muuid).map_err(io)?;
                container.finalize().map_err(io)?;
                let mut pack_counts = std::collections::BTreeMap::new();
                for k in 0..*packs {
                    pack_counts.insert(k + 1, 1u32);
                }
                let model = ContainerModel { contents, pack_counts, dir: dmodel };
                // the independent decoder: every block CRC, every pack's blake3, the manifest's masked
                // blake3 (bytes 38..256 of every pack info), pack infos, copied check infos
                info.evals = verify_indep_container(&dir, "a.jbk", &model, true)?.max(1);
                // free data ids: all distinct, some need their high byte
                let data = std::fs::read(path.as_std_path()).unwrap();
                let fd = crate::indep::decode_file(&data).map_err(|e| Failure::new("indep-layout", e))?;
                {
                    let got = fd.container.as_ref().map(|c| c.free_data.clone()).unwrap_or_default();
                    ensure!(got == fdb(b'C', 0), "free-data-container", "container header free data on disk {got:02x?}, given {:02x?}", fdb(b'C', 0));
                    let mut k = 0u16;
                    for p in &fd.packs {
                        let (got, want, what) = match &p.body {
                            crate::indep::PackBody::Content(c) => {
                                k += 1;
                                (c.free_data.clone(), fdb(b'c', k - 1), format!("content pack {k}"))
                            }
                            crate::indep::PackBody::Directory(d) => (d.free_data.clone(), fdb(b'd', 0), "directory pack".to_string()),
                            crate::indep::PackBody::Manifest(m) => (m.free_data.clone(), fdb(b'm', 0), "manifest pack".to_string()),
                        };
                        ensure!(got == want, "free-data-pack", "{what}: header free data on disk {got:02x?}, given {want:02x?}");
                    }
                    ensure!(k == *packs, "free-data-pack", "{k} content packs decoded, {packs} written");
                }
                if let crate::indep::PackBody::Manifest(m) = &fd.packs[fd.find_kind(b'm').unwrap()].body {
                    let ids: std::collections::BTreeSet<u16> = m.pack_infos.iter().filter(|p| p.pack_kind == b'c').map(|p| p.free_data_id).collect();
                    ensure!(ids.len() == *packs as usize, "free-data-ids", "{} distinct free data ids for {packs} packs with distinct free data", ids.len());
                    if ids.iter().any(|i| *i >= 256) {
                        info.class("free-data-id>=256");
                    }
                }
                // and the library reads it
                let c = match jbk::reader::Container::new(path.as_std_path()) {
                    Ok(c) => c,
                    Err(e) => fail!("many-packs-unreadable", "{e}"),
                };
                verify_container(&c, &model, "many-packs:")?;
                // the manifest pack opened on its own: the free data of every pack, by id and by uuid
                {
                    let err = |e: jbk::Error| Failure::new("many-packs-unreadable", format!("manifest pack: {e}"));
                    let cp = jbk::tools::open_pack(path.as_std_path()).map_err(err)?;
                    let r = cp.get_manifest_pack_reader().map_err(err)?.ok_or_else(|| Failure::new("many-packs-unreadable", "no manifest pack found in the file"))?;
                    let m = jbk::reader::ManifestPack::new(r).map_err(err)?;
                    ensure!(m.get_pack_infos().len() == *packs as usize, "manifest-pack-list", "the manifest lists {} content packs, {packs} were declared", m.get_pack_infos().len());
                    for (k, pi) in m.get_pack_infos().iter().enumerate() {
                        let want = format!("free-data-of-pack-{k:05}").into_bytes();
                        ensure!(pi.pack_id.into_u16() == k as u16 + 1, "manifest-pack-list", "content pack #{k} is listed with id {}", pi.pack_id.into_u16());
                        let by_id = m.get_pack_free_data(pi.pack_id).map_err(err)?.map(|b| b.to_vec());
                        let by_uuid = m.get_pack_free_data_uuid(pi.uuid).map_err(err)?.map(|b| b.to_vec());
                        ensure!(by_id.as_deref() == Some(&want[..]), "manifest-free-data", "get_pack_free_data(pack {}) = {:?}, given {:?}", k + 1, by_id.map(|b| String::from_utf8_lossy(&b).to_string()), String::from_utf8_lossy(&want));
                        ensure!(by_uuid.as_deref() == Some(&want[..]), "manifest-free-data", "get_pack_free_data_uuid(pack {}) = {:?}, given {:?}", k + 1, by_uuid.map(|b| String::from_utf8_lossy(&b).to_string()), String::from_utf8_lossy(&want));
                        ensure!(m.get_content_pack_info_uuid(pi.uuid).map(|p| p.pack_id) == Some(pi.pack_id), "manifest-pack-list", "get_content_pack_info_uuid of pack {} names another pack", k + 1);
                    }
                    let d0 = m.get_pack_free_data(jbk::PackId::from(0)).map_err(err)?.map(|b| b.to_vec());
                    ensure!(d0.as_deref() == Some(&dir_free[..]), "manifest-free-data", "get_pack_free_data(directory pack) = {d0:?}, given {:?}", String::from_utf8_lossy(&dir_free));
                    info.evals += 3 * *packs as u64;
                }
                info.nontrivial = true;
                info.key = hash_str(&format!("many{packs}{comp:?}"));
                Ok(info)
            }
            Case::Corpus(name) => {
                info.class("corpus");
                let src = PathBuf::from(corpus()).join(name);
                let exp: Expected = match std::fs::read(src.join("expected.json")).ok().and_then(|b| serde_json::from_slice(&b).ok()) {
                    Some(e) => e,
                    None => fail!("corpus-unreadable", "cannot load {name}/expected.json"),
                };
                // work on a copy (the reader only reads, but nothing may touch the committed files)
                let dir = ctx.subdir("c14corpus");
                for f in &exp.files {
                    std::fs::copy(src.join(f), dir.join(f)).unwrap();
                }
                let c = match jbk::reader::Container::new(dir.join(&exp.main)) {
                    Ok(c) => c,
                    Err(e) => fail!("corpus-container-unreadable", "{name}: the current reader cannot open a container written by the pinned version: {e}"),
                };
                let dump = match dump_container(&c, &exp.index_names, &exp.addresses) {
                    Ok(d) => d,
                    Err(e) => fail!("corpus-dump-error", "{name}: {e}"),
                };
                if dump != exp.dump {
                    let what = if dump.indexes != exp.dump.indexes {
                        "entries"
                    } else if dump.contents != exp.dump.contents {
                        "contents"
                    } else if dump.check != exp.dump.check {
                        "check"
                    } else {
                        "packs"
                    };
                    fail!(format!("corpus-dump-differs:{what}"), "{name}: the current reader's dump differs from the committed one in its {what}");
                }
                // the independent decoder still agrees too (guards the corpus itself against rot)
                let built_model_evals = exp.dump.indexes.values().map(|v| v.3.len() as u64).sum::<u64>() + exp.dump.contents.len() as u64;
                let mut tmp = CaseInfo::new();
                let model = ContainerModel { contents: vec![], pack_counts: Default::default(), dir: build_model(&exp.spec.dir, &exp.addresses) };
                classify_spec(&mut tmp, &exp.spec, &model);
                for c in tmp.classes {
                    info.class(format!("corpus:{c}"));
                }
                info.evals = built_model_evals.max(1);
                info.nontrivial = true;
                info.key = hash_str(name);
                ensure!(dump.check == "true", "corpus-check-false", "{name}: check() of a pinned-version container is {}", dump.check);
                Ok(info)
            }
        }
    }
}
