//! C11 — an unavailable pack is reported as missing, and everything else still reads.

use crate::container::*;
use crate::dirgen::*;
use crate::engine::*;
use crate::gen::*;
use crate::indep;
use crate::{ensure, fail};
use jubako as jbk;
use proptest::prelude::*;
use serde::{Deserialize, Serialize};
use std::path::Path;

#[derive(Serialize, Deserialize, Clone, Debug)]
pub struct Case {
    pub packaging: Packaging,
    pub comp: Comp,
    pub contents: Vec<ContentSpec>,
    pub extra: Vec<ExtraPack>,
    pub dir: DirSpec,
    /// Some(order): the alternative-packs case instead (two packs declared with the SAME id, the
    /// one declared first has priority - spec/manifest.rst); `order` permutes the declarations
    #[serde(default)]
    pub alt_packs: Option<u8>,
}

/// Two content packs share id 2 ("hi" declared before "lo"), packs 1 and 3 are ordinary; every
/// pack in its own file. While "hi" is there its bytes are served; without it the contents of
/// pack 2 are MISSING (or, read generously, served from the alternative) - never an error, never
/// the bytes of "lo" while "hi" is available; packs 1 and 3 always read.
fn run_alt(case: &Case, order: u8, ctx: &Ctx, info: &mut CaseInfo) -> Result<(), Failure> {
    let io = |e: std::io::Error| Failure::new("create-error", format!("alternative packs: {e}"));
    let jb = |e: jbk::creator::Error| Failure::new("create-error", format!("alternative packs: {e}"));
    let base = ctx.subdir("c11-alt");
    let mut packs: Vec<(&str, u16, Vec<Vec<u8>>)> = vec![
        ("main.jbkc", 1, (0..2).map(|i| content_bytes(100 + i, 20 + 13 * i as usize, Entropy::Text)).collect()),
        ("other.jbkc", 3, (0..1).map(|i| content_bytes(300 + i, 41, Entropy::High)).collect()),
        ("hi.jbkc", 2, (0..3).map(|i| content_bytes(200 + i, 10 + 7 * i as usize, Entropy::Text)).collect()),
        ("lo.jbkc", 2, (0..3).map(|i| content_bytes(900 + i, 10 + 7 * i as usize, Entropy::Low)).collect()),
    ];
    // declaration order: hi always before lo, the others anywhere
    match order % 4 {
        0 => {}
        1 => packs.swap(0, 2),          // hi, other, main, lo
        2 => packs.rotate_left(2),      // hi, lo, main, other
        _ => packs.swap(1, 2),          // main, hi, other, lo
    }
    let mut datas = vec![];
    let mut addresses: Vec<(u16, u32)> = vec![];
    for (file, id, contents) in &packs {
        let p = jbk::Utf8PathBuf::from_path_buf(base.join(file)).unwrap();
        let mut c = jbk::creator::ContentPackCreator::new(&p, jbk::PackId::from(*id), vendor(), Default::default(), case.comp.to_jbk()).map_err(io)?;
        for (k, b) in contents.iter().enumerate() {
            c.add_content(Box::new(std::io::Cursor::new(b.clone())), Default::default()).map_err(io)?;
            if *file != "lo.jbkc" {
                addresses.push((*id, k as u32));
            }
        }
        let (_, data) = c.finalize().map_err(io)?;
        datas.push((file.to_string(), data));
    }
    let dmodel = build_model(&DirSpec::addresses_only(), &addresses);
    let main = jbk::Utf8PathBuf::from_path_buf(base.join("a.jbk")).unwrap();
    let mut container = jbk::creator::ContainerPackCreator::new(&main, Default::default()).map_err(io)?;
    let mut dp = jbk::creator::DirectoryPackCreator::new(jbk::PackId::from(0), vendor(), Default::default());
    build_dir(&dmodel).install(&mut dp);
    let fin = dp.finalize().map_err(io)?;
    let mut file = container.into_file().map_err(io)?;
    let dir_data = fin.write(&mut file).map_err(jb)?;
    container = file.close(dir_data.uuid).map_err(io)?;
    let mut manifest = jbk::creator::ManifestPackCreator::new(vendor(), Default::default());
    manifest.add_pack(dir_data, "");
    let hi_uuid = datas.iter().find(|d| d.0 == "hi.jbkc").unwrap().1.uuid;
    for (file, d) in datas {
        manifest.add_pack(d, file.as_str());
    }
    let mut file = container.into_file().map_err(io)?;
    let muuid = manifest.finalize(&mut file).map_err(jb)?;
    container = file.close(muuid).map_err(io)?;
    container.finalize().map_err(io)?;
    let bytes_of = |file: &str, k: usize| packs.iter().find(|p| p.0 == file).unwrap().2[k].clone();
    let mut evals = 0u64;
    for removed in 0u8..16 {
        let gone = |file: &str| {
            let i = ["main.jbkc", "other.jbkc", "hi.jbkc", "lo.jbkc"].iter().position(|f| *f == file).unwrap();
            removed >> i & 1 == 1
        };
        let sdir = ctx.subdir("c11-alt-scenario");
        copy_dir(&base, &sdir);
        for f in ["main.jbkc", "other.jbkc", "hi.jbkc", "lo.jbkc"] {
            if gone(f) {
                std::fs::remove_file(sdir.join(f)).unwrap();
            }
        }
        let c = match jbk::reader::Container::new(sdir.join("a.jbk")) {
            Ok(c) => c,
            Err(e) => fail!("open-with-missing-pack", "alternative packs, removed mask {removed:04b}: Container::new: {e}"),
        };
        for (file, id, n) in [("main.jbkc", 1u16, 2usize), ("other.jbkc", 3, 1)] {
            for k in 0..n {
                let got = read_content(&c, jbk::ContentAddress::new(id.into(), (k as u32).into()));
                match (&got, gone(file)) {
                    (ContentRead::Bytes(v), false) if *v == bytes_of(file, k) => {}
                    (ContentRead::Missing { pack_id, .. }, true) if *pack_id == id => {}
                    _ => fail!(if gone(file) { "missing-not-reported" } else { "available-content-wrong" }, "alternative packs, removed mask {removed:04b}: content ({id},{k}) of {file}: {}", got.describe()),
                }
                evals += 1;
            }
        }
        for k in 0..3 {
            let got = read_content(&c, jbk::ContentAddress::new(2u16.into(), (k as u32).into()));
            match &got {
                ContentRead::Bytes(v) if !gone("hi.jbkc") => ensure!(
                    *v == bytes_of("hi.jbkc", k),
                    "alternative-pack-priority",
                    "removed mask {removed:04b}: content (2,{k}) is served from {} although the pack declared first for id 2 (hi.jbkc) is available",
                    if *v == bytes_of("lo.jbkc", k) { "the alternative declared second (lo.jbkc)" } else { "nowhere known" }
                ),
                // without the first-declared pack: MISSING, describing that pack ...
                ContentRead::Missing { pack_id: 2, uuid, .. } if gone("hi.jbkc") => ensure!(uuid == hi_uuid.as_bytes() || gone("lo.jbkc"), "missing-describes-other-pack", "removed mask {removed:04b}: content (2,{k}): MISSING describes another pack than the one declared first"),
                // ... or, read generously, the bytes of the alternative that is still there
                ContentRead::Bytes(v) if gone("hi.jbkc") && !gone("lo.jbkc") && *v == bytes_of("lo.jbkc", k) => {}
                _ => fail!("alternative-pack-read", "alternative packs, removed mask {removed:04b}: content (2,{k}): {}", got.describe()),
            }
            evals += 1;
        }
        match c.check() {
            Ok(true) => {}
            other => fail!("check-with-missing-pack", "alternative packs, removed mask {removed:04b}: check() = {:?}", other.map_err(|e| e.to_string())),
        }
        let _ = std::fs::remove_dir_all(&sdir);
    }
    // every listed pack that is present is covered by check(): damage in either alternative, with
    // contents of that id read BEFORE the check on the same container (a pack opened for reading
    // must not stand in for its alternative)
    for victim in ["lo.jbkc", "hi.jbkc"] {
        let sdir = ctx.subdir("c11-alt-damaged");
        copy_dir(&base, &sdir);
        let mut bytes = std::fs::read(sdir.join(victim)).unwrap();
        let at = bytes.len() / 2;
        bytes[at] ^= 0x40;
        std::fs::write(sdir.join(victim), &bytes).unwrap();
        let c = match jbk::reader::Container::new(sdir.join("a.jbk")) {
            Ok(c) => c,
            Err(e) => fail!("open-with-missing-pack", "alternative packs, {victim} damaged: Container::new: {e}"),
        };
        for (id, n) in [(1u16, 2u32), (2, 3), (3, 1)] {
            for k in 0..n {
                let _ = read_content(&c, jbk::ContentAddress::new(id.into(), k.into()));
            }
        }
        match c.check() {
            Ok(true) => fail!("check-misses-damaged-present-pack", "alternative packs: byte {at} of {victim} (declared under id 2, present) was altered and Container::check, called after contents of id 2 were read, answers Ok(true)"),
            _ => {}
        }
        evals += 1;
        let _ = std::fs::remove_dir_all(&sdir);
    }
    info.class("alternative-packs-same-id");
    info.class(format!("comp:{}", case.comp.name()));
    info.evals = evals;
    info.nontrivial = true;
    info.key = hash_str(&format!("alt|{order}|{:?}", case.comp));
    Ok(())
}

#[derive(Clone, Copy, Debug, PartialEq, Eq)]
enum Unavail {
    Deleted,
    Directory,
    ForeignContainer,
    ForeignBarePack,
    /// its file is gone and its recorded location was rewritten to the file of ANOTHER listed
    /// pack that is available: two packs recorded at one location, the file holds one of them
    PointsToOtherPack,
    /// the same container created a second time: a valid pack of exactly the same size and shape
    /// at the same place, with another uuid
    Twin,
}

pub struct C11;

fn copy_dir(from: &Path, to: &Path) {
    std::fs::create_dir_all(to).unwrap();
    for e in std::fs::read_dir(from).unwrap() {
        let e = e.unwrap();
        if e.path().is_file() {
            std::fs::copy(e.path(), to.join(e.file_name())).unwrap();
        }
    }
}

impl Property for C11 {
    type Case = Case;
    const ID: &'static str = "C11";

    fn rule() -> String {
        "proptest-generated containers with 1-3 content packs in separate files (main pack through TwoFiles/NoConcat, extra packs always, OneFile with >=1 extra), contents distributed over all packs, directory entries pointing at real contents; for EVERY non-empty subset of the separate packs and every kind of unavailability {file deleted, replaced by a directory, replaced by a different valid container holding another uuid, replaced by a different valid bare content pack} (plus one mixed assignment). Oracle: Container::new succeeds; every entry equals the model; a content of an available pack reads to its bytes; a content of an unavailable pack answers MISSING whose pack id, uuid and location equal the manifest's (independent decoder) - not an error, a panic or bytes; get_pack(id > max) is None; check() is Ok(true). Non-trivial = a scenario with at least one pack unavailable and one available, both holding contents that are read; distinct by (packaging, pack count, subset, kind). Fixed cases 'alternative packs': two content packs declared under ONE id (spec/manifest.rst: the one declared first has priority) next to two ordinary packs, 4 declaration orders, every subset of the four pack files removed: while the first-declared pack is available its bytes are served; without it the answer is MISSING describing it (or the alternative's bytes); ordinary packs read or are MISSING as usual; check() is Ok(true). Every scenario is asked again on a fresh container last pack first; then every deleted pack file is put back at its recorded location and the container that reported it missing must read its contents. A sixth kind of unavailability: the twin (the same container built a second time: a valid pack of the same size at the same place under another uuid). Packs replaced by a foreign or twin file are put back like the deleted ones. Every third scenario is also read by four threads released together on a freshly opened container (unavailable packs first for two of them, last for the others). One more scenario per case: the location of a separate pack respelled as a file: URL: MISSING under that location, or served - and then covered by the check.".into()
    }

    fn cases(tier: Tier) -> u32 {
        match tier {
            Tier::Quick => 4800,
            Tier::Thorough => 100000,
        }
    }

    fn strategy(_tier: Tier) -> BoxedStrategy<Case> {
        let nonempty_seq = prop::collection::vec(content_strategy(LenClass::Small, false), 1..8);
        (
            packaging_strategy(),
            comp_strategy(),
            nonempty_seq.clone(),
            prop::collection::vec((comp_strategy(), nonempty_seq, prop_oneof![3 => Just(0u8), 1 => 1u8..5]).prop_map(|(comp, contents, id_class)| ExtraPack { comp, contents, id_class, place: 0 }), 0..=2),
            dir_strategy(SizeClass::Small, SortMode::Sometimes, false, true),
        )
            .prop_map(|(packaging, comp, contents, mut extra, dir)| {
                if packaging == Packaging::OneFile && extra.is_empty() {
                    // at least one separate pack
                    extra.push(ExtraPack { comp: Comp::None, contents: contents.iter().take(2).cloned().collect(), id_class: 0, place: 0 });
                }
                Case { packaging, comp, contents, extra, dir, alt_packs: None }
            })
            .boxed()
    }

    fn required_classes(_tier: Tier) -> Vec<&'static str> {
        vec!["alternative-packs-same-id", "damaged-present-pack-detected", "separate-packs:1", "separate-packs:2", "separate-packs:3", "kind:Deleted", "kind:Directory", "kind:ForeignContainer", "kind:ForeignBarePack", "kind:PointsToOtherPack", "kind:Twin", "some-available-some-not", "all-unavailable", "main-pack-unavailable"]
    }

    fn case_timeout_s(_tier: Tier) -> u64 {
        900
    }

    fn fixed_cases(_tier: Tier) -> Vec<Case> {
        (0u8..4)
            .map(|o| Case { packaging: Packaging::NoConcat, comp: [Comp::None, Comp::Zstd(3), Comp::Lz4(3), Comp::None][o as usize], contents: vec![], extra: vec![], dir: DirSpec::addresses_only(), alt_packs: Some(o) })
            .collect()
    }

    fn run(case: &Case, ctx: &Ctx) -> CaseResult {
        let mut info = CaseInfo::new();
        if let Some(order) = case.alt_packs {
            run_alt(case, order, ctx, &mut info)?;
            return Ok(info);
        }
        let spec = ContainerSpec {
            packaging: case.packaging,
            comp: case.comp,
            contents: case.contents.clone(),
            extra_packs: case.extra.clone(),
            dedup: false,
            dir: case.dir.clone(),
        };
        let base = ctx.subdir("c11-base");
        let built = build(&spec, &base, "a.jbk", None)?;
        // foreign packs: another container's content file, and a bare content pack
        let fdir = ctx.subdir("c11-foreign");
        let fspec = ContainerSpec {
            packaging: Packaging::TwoFiles,
            comp: Comp::None,
            contents: vec![ContentSpec { len: 33, ent: Entropy::Text, seed: 7, hint: Hint::No, source: Source::Mem, dup_of: None, flip: None }],
            extra_packs: vec![],
            dedup: false,
            dir: DirSpec::addresses_only(),
        };
        build(&fspec, &fdir, "f.jbk", None)?;
        {
            let p = jbk::Utf8PathBuf::from_path_buf(fdir.join("bare.jbkc")).unwrap();
            let mut c = jbk::creator::ContentPackCreator::new(&p, jbk::PackId::from(1), vendor(), Default::default(), jbk::creator::Compression::None).unwrap();
            c.add_content(Box::new(std::io::Cursor::new(b"foreign bytes".to_vec())), Default::default()).unwrap();
            c.finalize().unwrap();
        }
        // manifest facts from the independent decoder
        let mdata = std::fs::read(&built.main_path).unwrap();
        let fd = match indep::decode_file(&mdata) {
            Ok(f) => f,
            Err(e) => fail!("indep-layout", "independent decoder rejects the entry-point file: {e}"),
        };
        let indep::PackBody::Manifest(m) = &fd.packs[fd.find_kind(b'm').unwrap()].body else { unreachable!() };
        // separate content packs = listed content packs that are not inside the entry-point file
        let separate: Vec<&indep::PackInfoDec> = m.pack_infos.iter().filter(|p| p.pack_kind == b'c' && fd.find_uuid(&p.uuid).is_none()).collect();
        ensure!(!separate.is_empty(), "harness-no-separate-pack", "harness: no separate content pack in this case");
        info.class(format!("separate-packs:{}", separate.len()));
        let max_id = m.pack_infos.iter().map(|p| p.pack_id).max().unwrap();
        // the twin: the same spec built once more (same file names and sizes, other uuids)
        let tdir = ctx.subdir("c11-twin");
        build(&spec, &tdir, "a.jbk", None)?;
        let kinds = [Unavail::Deleted, Unavail::Directory, Unavail::ForeignContainer, Unavail::ForeignBarePack, Unavail::PointsToOtherPack, Unavail::Twin];
        let mut scenarios: Vec<Vec<Option<Unavail>>> = vec![];
        for subset in 1u32..(1 << separate.len()) {
            for k in kinds {
                scenarios.push((0..separate.len()).map(|i| if subset & (1 << i) != 0 { Some(k) } else { None }).collect());
            }
        }
        // one mixed assignment
        scenarios.push((0..separate.len()).map(|i| Some(kinds[i % 4])).collect());
        // relocation needs an available pack to point at: drop the scenarios where none is left
        scenarios.retain(|sc| !sc.iter().any(|u| *u == Some(Unavail::PointsToOtherPack)) || sc.iter().any(|u| u.is_none()));
        let mut evals = 0u64;
        let mut nontrivial_scenarios = 0;
        for (si, sc) in scenarios.iter().enumerate() {
            let d = ctx.subdir("c11-run");
            copy_dir(&base, &d);
            // the location each separate pack is expected to be reported with
            let mut expected_loc: Vec<Vec<u8>> = separate.iter().map(|p| p.location.clone()).collect();
            for (k, (p, u)) in separate.iter().zip(sc.iter()).enumerate() {
                let loc = String::from_utf8(p.location.clone()).unwrap();
                let path = d.join(&loc);
                match u {
                    Some(Unavail::PointsToOtherPack) => {
                        std::fs::remove_file(&path).unwrap();
                        let other = separate.iter().zip(sc.iter()).find(|(_, u)| u.is_none()).map(|(p, _)| p.location.clone()).unwrap();
                        let new_loc = String::from_utf8(other.clone()).unwrap();
                        match jbk::tools::set_location(d.join("a.jbk"), uuid::Uuid::from_bytes(p.uuid), new_loc.as_str().into()) {
                            Ok(Some(_)) => {}
                            other => fail!("harness-set-location", "set_location while preparing the scenario: {:?}", other.map(|o| o.is_some()).map_err(|e| e.to_string())),
                        }
                        expected_loc[k] = other;
                    }
                    None => {}
                    Some(Unavail::Deleted) => std::fs::remove_file(&path).unwrap(),
                    Some(Unavail::Directory) => {
                        std::fs::remove_file(&path).unwrap();
                        std::fs::create_dir(&path).unwrap();
                    }
                    Some(Unavail::ForeignContainer) => {
                        std::fs::copy(fdir.join("f.jbkc"), &path).unwrap();
                    }
                    Some(Unavail::Twin) => {
                        ensure!(std::fs::metadata(tdir.join(&loc)).map(|m| m.len()).ok() == std::fs::metadata(&path).map(|m| m.len()).ok(), "harness-twin-size", "harness: the twin of {loc} has another size");
                        std::fs::copy(tdir.join(&loc), &path).unwrap();
                    }
                    Some(Unavail::ForeignBarePack) => {
                        std::fs::copy(fdir.join("bare.jbkc"), &path).unwrap();
                    }
                }
                if let Some(u) = u {
                    info.class(format!("kind:{u:?}"));
                    if p.pack_id == 1 {
                        info.class("main-pack-unavailable");
                    }
                }
            }
            let unavailable = |pack_id: u16| separate.iter().zip(sc.iter()).any(|(p, u)| p.pack_id == pack_id && u.is_some());
            let c = match jbk::reader::Container::new(d.join("a.jbk")) {
                Ok(c) => c,
                Err(e) => fail!("container-unreadable", "scenario {si} {sc:?}: Container::new fails: {e}"),
            };
            for sm in &built.model.dir.stores {
                evals += verify_store_against_model(c.get_directory_pack(), sm, "")?;
            }
            let mut read_avail = 0;
            let mut read_missing = 0;
            for (a, b) in &built.model.contents {
                let pid = a.pack_id.into_u16();
                let got = read_content(&c, *a);
                if unavailable(pid) {
                    let k = separate.iter().position(|p| p.pack_id == pid).unwrap();
                    let p = separate[k];
                    match got {
                        ContentRead::Missing { pack_id, uuid, location } => {
                            ensure!(
                                pack_id == pid && uuid == p.uuid && location.as_bytes() == expected_loc[k].as_slice(),
                                "missing-wrong-info",
                                "scenario {si}: content {a:?}: MISSING carries (id {pack_id}, location {location:?}), manifest says (id {pid}, location {:?})",
                                String::from_utf8_lossy(&expected_loc[k])
                            );
                            read_missing += 1;
                        }
                        ContentRead::Bytes(v) => fail!(
                            if &v == b { "missing-pack-read-somehow" } else { "foreign-pack-accepted" },
                            "scenario {si} {sc:?}: content {a:?} of an unavailable pack yields {} bytes (equal to the model: {})",
                            v.len(),
                            &v == b
                        ),
                        other => fail!("missing-not-reported", "scenario {si} {sc:?}: content {a:?} of an unavailable pack: {}", other.describe()),
                    }
                } else {
                    match got {
                        ContentRead::Bytes(v) => {
                            ensure!(&v == b, "content-bytes", "scenario {si}: content {a:?} of an available pack differs");
                            read_avail += 1;
                        }
                        other => fail!("available-content-unreadable", "scenario {si} {sc:?}: content {a:?} of an available pack: {}", other.describe()),
                    }
                }
                evals += 1;
            }
            for id in [max_id.saturating_add(1), max_id.saturating_add(2), u16::MAX].into_iter().filter(|i| *i > max_id) {
                match c.get_pack(id.into()) {
                    Ok(None) => {}
                    Ok(Some(_)) => fail!("pack-beyond-max", "scenario {si}: get_pack({id}) beyond the max id {max_id} answers a pack"),
                    Err(e) => fail!("pack-beyond-max-error", "scenario {si}: get_pack({id}): {e}"),
                }
            }
            match c.check() {
                Ok(true) => {}
                other => fail!("check-with-missing-pack", "scenario {si} {sc:?}: check() = {other:?} (it covers the packs that are present)"),
            }
            if read_avail > 0 && read_missing > 0 {
                nontrivial_scenarios += 1;
                info.class("some-available-some-not");
            }
            // the same questions in the opposite order on a freshly opened container: the packs
            // declared last (the ones in their own files) are asked before the main pack
            {
                let cr = match jbk::reader::Container::new(d.join("a.jbk")) {
                    Ok(c) => c,
                    Err(e) => fail!("container-unreadable", "scenario {si} {sc:?}: Container::new fails: {e}"),
                };
                for (a, b) in built.model.contents.iter().rev() {
                    let pid = a.pack_id.into_u16();
                    match (read_content(&cr, *a), unavailable(pid)) {
                        (ContentRead::Missing { .. }, true) => {}
                        (ContentRead::Bytes(v), false) => ensure!(&v == b, "content-bytes", "scenario {si}, contents asked last pack first: content {a:?} of an available pack differs"),
                        (other, true) => fail!("missing-not-reported", "scenario {si} {sc:?}, contents asked last pack first: content {a:?} of an unavailable pack: {}", other.describe()),
                        (other, false) => fail!("available-content-unreadable", "scenario {si} {sc:?}, contents asked last pack first: content {a:?} of an available pack: {}", other.describe()),
                    }
                    evals += 1;
                }
                info.class("asked-last-pack-first");
            }
            // four threads, released together, ask a freshly opened container for every content (the
            // first request for an unavailable pack and for an available one happen at the same time)
            if si % 3 == 0 {
                let cc = match jbk::reader::Container::new(d.join("a.jbk")) {
                    Ok(c) => std::sync::Arc::new(c),
                    Err(e) => fail!("container-unreadable", "scenario {si} {sc:?}: Container::new fails: {e}"),
                };
                let barrier = std::sync::Arc::new(std::sync::Barrier::new(4));
                let jobs: std::sync::Arc<Vec<(jbk::ContentAddress, Vec<u8>, bool)>> = std::sync::Arc::new(built.model.contents.iter().map(|(a, b)| (*a, b.clone(), unavailable(a.pack_id.into_u16()))).collect());
                let hs: Vec<_> = (0..4usize)
                    .map(|t| {
                        let cc = std::sync::Arc::clone(&cc);
                        let barrier = std::sync::Arc::clone(&barrier);
                        let jobs = std::sync::Arc::clone(&jobs);
                        std::thread::spawn(move || -> Result<(), Failure> {
                            barrier.wait();
                            for k in 0..jobs.len() {
                                // unavailable packs first for the even threads, last for the odd ones
                                let (a, b, un) = &jobs[if t % 2 == 0 { jobs.len() - 1 - k } else { k }];
                                match (read_content(&cc, *a), *un) {
                                    (ContentRead::Missing { .. }, true) => {}
                                    (ContentRead::Bytes(v), false) => ensure!(&v == b, "content-bytes", "concurrent readers: content {a:?} of an available pack differs"),
                                    (other, true) => fail!("missing-not-reported", "concurrent readers (thread {t}): content {a:?} of an unavailable pack: {}", other.describe()),
                                    (other, false) => fail!("available-content-unreadable", "concurrent readers (thread {t}): content {a:?} of an available pack: {}", other.describe()),
                                }
                            }
                            Ok(())
                        })
                    })
                    .collect();
                for (t, h) in hs.into_iter().enumerate() {
                    match h.join() {
                        Ok(r) => r?,
                        Err(_) => fail!("reader-panic", "scenario {si} {sc:?}: reader thread {t} of four concurrent readers panicked: {}", take_panic().unwrap_or_default()),
                    }
                }
                info.class("concurrent-readers-with-a-missing-pack");
            }
            // a pack that was reported missing becomes available while the container is open (the
            // file is put back at its recorded location): the same container now reads it
            {
                let mut restored = vec![];
                for (p, u) in separate.iter().zip(sc.iter()) {
                    if matches!(u, Some(Unavail::Deleted) | Some(Unavail::Directory) | Some(Unavail::Twin) | Some(Unavail::ForeignContainer) | Some(Unavail::ForeignBarePack)) {
                        let loc = String::from_utf8(p.location.clone()).unwrap();
                        let path = d.join(&loc);
                        if path.is_dir() {
                            std::fs::remove_dir(&path).unwrap();
                        }
                        std::fs::copy(base.join(&loc), &path).unwrap();
                        restored.push(p.pack_id);
                    }
                }
                if !restored.is_empty() && read_missing > 0 {
                    for (a, b) in &built.model.contents {
                        if !restored.contains(&a.pack_id.into_u16()) {
                            continue;
                        }
                        match read_content(&c, *a) {
                            ContentRead::Bytes(v) => ensure!(&v == b, "content-bytes", "scenario {si}: content {a:?} of a pack put back at its location differs"),
                            other => fail!(
                                "restored-pack-still-missing",
                                "scenario {si} {sc:?}: pack {} was reported missing, its file was then put back at its recorded location, and the same container answers for content {a:?}: {}",
                                a.pack_id.into_u16(),
                                other.describe()
                            ),
                        }
                        evals += 1;
                    }
                    info.class("missing-pack-put-back");
                }
            }
            // "the container check covers the packs that are present": damage one byte inside the
            // checked range of the LAST available separate pack (so that unavailable ones precede
            // it in the manifest) and the check must not answer success any more
            drop(c);
            if let Some((p, _)) = separate.iter().zip(sc.iter()).rev().find(|(_, u)| u.is_none()) {
                let loc = String::from_utf8(p.location.clone()).unwrap();
                let path = d.join(&loc);
                let mut bytes = std::fs::read(&path).unwrap();
                if let Ok(fd2) = indep::decode_file(&bytes) {
                    if let Some(pi) = fd2.find_uuid(&p.uuid) {
                        let pk = &fd2.packs[pi];
                        // a byte in the middle of the checked range
                        let pos = (pk.start + pk.header.check_pos / 2) as usize;
                        bytes[pos] ^= 0x40;
                        std::fs::write(&path, &bytes).unwrap();
                        let c2 = match jbk::reader::Container::new(d.join("a.jbk")) {
                            Ok(c) => c,
                            Err(e) => fail!("container-unreadable", "scenario {si} {sc:?} + damaged available pack {}: Container::new fails: {e}", p.pack_id),
                        };
                        match c2.check() {
                            Ok(true) => fail!(
                                "check-misses-damaged-present-pack",
                                "scenario {si} {sc:?}: byte {pos} of the present pack {} ({loc}) was altered and Container::check still answers Ok(true)",
                                p.pack_id
                            ),
                            _ => {
                                info.class("damaged-present-pack-detected");
                            }
                        }
                        evals += 1;
                    }
                }
            }
            if sc.iter().all(|u| u.is_some()) && case.packaging != Packaging::OneFile {
                info.class("all-unavailable");
            }
        }
        // one more scenario: the location of the first separate pack respelled as a `file:` URL (the
        // format documentation names that scheme). A reader may not follow it - the pack is then
        // MISSING under the location written - or follow it and serve the bytes; if it serves them,
        // the pack is present and the container check has to cover it like any other.
        {
            let d = ctx.subdir("c11-run");
            copy_dir(&base, &d);
            let p = separate[0];
            let loc = String::from_utf8(p.location.clone()).unwrap();
            let url = format!("file:{loc}");
            if url.len() <= 213 {
                match jbk::tools::set_location(d.join("a.jbk"), uuid::Uuid::from_bytes(p.uuid), url.as_str().into()) {
                    Ok(Some(_)) => {}
                    other => fail!("harness-set-location", "set_location while preparing the file: scenario: {:?}", other.map(|o| o.is_some()).map_err(|e| e.to_string())),
                }
                let c = match jbk::reader::Container::new(d.join("a.jbk")) {
                    Ok(c) => c,
                    Err(e) => fail!("container-unreadable", "location respelled as {url:?}: Container::new fails: {e}"),
                };
                let mut served = false;
                for (a, b) in built.model.contents.iter().filter(|(a, _)| a.pack_id.into_u16() == p.pack_id) {
                    match read_content(&c, *a) {
                        ContentRead::Missing { location, .. } => ensure!(location == url, "missing-wrong-info", "location respelled as {url:?}: MISSING carries location {location:?}"),
                        ContentRead::Bytes(v) => {
                            ensure!(&v == b, "content-bytes", "location respelled as {url:?}: content {a:?} differs");
                            served = true;
                        }
                        other => fail!("missing-not-reported", "location respelled as {url:?}: content {a:?}: {}", other.describe()),
                    }
                    evals += 1;
                }
                drop(c);
                info.class(if served { "file-url-location:followed" } else { "file-url-location:not-followed" });
                if served {
                    let path = d.join(&loc);
                    let mut bytes = std::fs::read(&path).unwrap();
                    if let Ok(fd2) = indep::decode_file(&bytes) {
                        if let Some(pi) = fd2.find_uuid(&p.uuid) {
                            let pk = &fd2.packs[pi];
                            let pos = (pk.start + pk.header.check_pos / 2) as usize;
                            bytes[pos] ^= 0x40;
                            std::fs::write(&path, &bytes).unwrap();
                            if let Ok(c2) = jbk::reader::Container::new(d.join("a.jbk")) {
                                if let Ok(true) = c2.check() {
                                    fail!("check-misses-damaged-present-pack", "location respelled as {url:?}: the pack is served through it, byte {pos} of it was altered and Container::check still answers Ok(true)");
                                }
                            }
                            evals += 1;
                        }
                    }
                }
            }
        }
        info.evals = evals.max(1);
        info.nontrivial = nontrivial_scenarios > 0;
        info.key = hash_str(&format!("{:?}|{}|{:?}|{}|{:?}", case.packaging, separate.len(), built.model.pack_counts, scenarios.len(), case.comp));
        Ok(info)
    }
}
