//! C08 — the created container does not depend on how compression workers are scheduled.

use crate::engine::*;
use crate::gen::*;
use crate::{ensure, fail};
use jubako as jbk;
use proptest::prelude::*;
use serde::{Deserialize, Serialize};
use std::sync::{Arc, Mutex};

#[derive(Serialize, Deserialize, Clone, Debug, PartialEq, Eq)]
pub enum Seg {
    /// `n` tiny contents (4095 of them fill a cluster, raw or compressed)
    Tiny { n: u16, hint: Hint, seed: u32 },
    /// `n` contents of more than half a cluster: each gets a compressed cluster of its own
    Big { n: u8, extra: u16, hint: Hint, seed: u32 },
    /// `clusters` x 4095 contents of length 0: clusters that hold no byte at all
    #[serde(alias = "Empty")]
    Empties { clusters: u8, hint: Hint },
    /// one incompressible content with hint Yes (the stored size of its cluster exceeds the plain size)
    Noise { len: u32, seed: u32 },
    /// `n` compressible contents of a few KiB with hint Detect (the creator reads their head, rewinds)
    Detect { n: u8, seed: u32 },
    /// one content of `mib` MiB (+ a few bytes), hint Yes: a single compressed cluster larger than
    /// everything a small queue of ordinary (4 MiB) clusters holds
    Huge { mib: u8, seed: u32 },
}

#[derive(Serialize, Deserialize, Clone, Copy, Debug, PartialEq, Eq, Hash)]
pub enum PlanKind {
    None,
    Uniform,
    SlowFirstCompressed,
    SlowWriter,
    ReverseWorkers,
    SlowMain,
    /// every compression takes longer than 100 ms (the first dozen compressed clusters)
    VerySlowWorkers,
    /// the producer pauses for seconds: 2.6 s when the second cluster opens, 4.6 s when the fourth
    /// does (nothing reaches the workers or the writer meanwhile)
    LongPauses,
}

#[derive(Serialize, Deserialize, Clone, Debug, PartialEq, Eq)]
pub struct Plan {
    pub kind: PlanKind,
    pub seed: u32,
    /// number of CPUs the creator may see (=> max(cpus,2)-1 workers, queue limit twice that)
    pub cpus: u8,
}

#[derive(Serialize, Deserialize, Clone, Debug)]
pub struct Case {
    pub comp: Comp,
    pub segs: Vec<Seg>,
    pub plans: Vec<Plan>,
    /// contents at the start of a segment and at every 4095th place are handed over as files
    /// (`InputFile`), the others from memory: the writer copies the two kinds differently
    #[serde(default)]
    pub file_sources: bool,
}

pub struct C08;

struct Perturb {
    plan: Plan,
    written: Mutex<Vec<u32>>,
    workers: Mutex<std::collections::BTreeSet<String>>,
    first_comp: Mutex<Option<u32>>,
    nclusters: Mutex<u32>,
    slow_budget: std::sync::atomic::AtomicI64,
}

impl Perturb {
    fn nap(&self, site: u32, idx: u32) {
        self.nap2(site, idx, false)
    }
    fn nap2(&self, site: u32, idx: u32, compressed: bool) {
        let h = splitmix((self.plan.seed as u64) << 32 | (site as u64) << 24 | idx as u64);
        let us = match self.plan.kind {
            PlanKind::None => 0,
            PlanKind::Uniform => match h % 8 {
                0 | 1 | 2 => 0,
                3 => 1, // yield
                4 | 5 => 100,
                6 => 2000,
                _ => 400,
            },
            PlanKind::SlowFirstCompressed => {
                if site == 1 && *self.first_comp.lock().unwrap() == Some(idx) {
                    20_000
                } else {
                    0
                }
            }
            PlanKind::SlowWriter => {
                if site == 2 {
                    2000
                } else {
                    0
                }
            }
            PlanKind::ReverseWorkers => {
                if site == 1 {
                    (40u64.saturating_sub(idx as u64)) * 300
                } else {
                    0
                }
            }
            PlanKind::SlowMain => {
                if site == 0 {
                    1500
                } else {
                    0
                }
            }
            PlanKind::LongPauses => {
                if site == 0 && idx == 1 {
                    2_600_000
                } else if site == 0 && idx == 3 {
                    4_600_000
                } else {
                    0
                }
            }
            PlanKind::VerySlowWorkers => {
                if site == 1 && compressed && self.slow_budget.fetch_sub(1, std::sync::atomic::Ordering::Relaxed) > 0 {
                    130_000
                } else {
                    0
                }
            }
        };
        match us {
            0 => {}
            1 => std::thread::yield_now(),
            n => std::thread::sleep(std::time::Duration::from_micros(n)),
        }
    }
}

impl jbk::creator::Progress for Perturb {
    fn new_cluster(&self, idx: u32, compressed: bool) {
        *self.nclusters.lock().unwrap() += 1;
        if compressed {
            let mut f = self.first_comp.lock().unwrap();
            if f.is_none() {
                *f = Some(idx);
            }
        }
        self.nap(0, idx);
    }
    fn handle_cluster(&self, idx: u32, compressed: bool) {
        if compressed {
            let name = std::thread::current().name().unwrap_or("?").to_string();
            self.workers.lock().unwrap().insert(name);
        }
        self.nap2(1, idx, compressed);
    }
    fn handle_cluster_written(&self, idx: u32) {
        self.written.lock().unwrap().push(idx);
        self.nap(2, idx);
    }
    fn content_added(&self, _size: jbk::Size) {}
}

fn set_affinity(cpus: usize) -> Option<libc::cpu_set_t> {
    unsafe {
        let mut old: libc::cpu_set_t = std::mem::zeroed();
        if libc::sched_getaffinity(0, std::mem::size_of::<libc::cpu_set_t>(), &mut old) != 0 {
            return None;
        }
        let avail: Vec<usize> = (0..libc::CPU_SETSIZE as usize).filter(|i| libc::CPU_ISSET(*i, &old)).collect();
        let mut new: libc::cpu_set_t = std::mem::zeroed();
        for c in avail.iter().take(cpus.max(1)) {
            libc::CPU_SET(*c, &mut new);
        }
        if libc::sched_setaffinity(0, std::mem::size_of::<libc::cpu_set_t>(), &new) != 0 {
            return None;
        }
        Some(old)
    }
}

fn restore_affinity(old: &libc::cpu_set_t) {
    unsafe {
        libc::sched_setaffinity(0, std::mem::size_of::<libc::cpu_set_t>(), old);
    }
}

/// (bytes, hint) of every insertion of the case
pub fn expand(segs: &[Seg]) -> Vec<(Vec<u8>, Hint)> {
    let mut out = vec![];
    for s in segs {
        match s {
            Seg::Tiny { n, hint, seed } => {
                for i in 0..*n as u32 {
                    let len = ((seed.wrapping_add(i)) % 23) as usize;
                    out.push((content_bytes(seed.wrapping_add(i), len, Entropy::Text), *hint));
                }
            }
            Seg::Empties { clusters, hint } => {
                for _ in 0..*clusters as u32 * 4095 {
                    out.push((vec![], *hint));
                }
            }
            Seg::Noise { len, seed } => out.push((content_bytes(*seed, *len as usize, Entropy::High), Hint::Yes)),
            Seg::Huge { mib, seed } => out.push((content_bytes(*seed, ((*mib as usize) << 20) + 13 + (*seed % 7) as usize, Entropy::Zero), Hint::Yes)),
            Seg::Detect { n, seed } => {
                for i in 0..*n as u32 {
                    let len = 3000 + (seed.wrapping_add(i * 977) % 6000) as usize;
                    out.push((content_bytes(seed.wrapping_add(i), len, Entropy::Text), Hint::Detect));
                }
            }
            Seg::Big { n, extra, hint, seed } => {
                for i in 0..*n as u32 {
                    let len = (2usize << 20) + 4096 + *extra as usize * 32 + i as usize;
                    out.push((content_bytes(seed.wrapping_add(i), len, if i % 2 == 0 { Entropy::Low } else { Entropy::Zero }), *hint));
                }
            }
        }
    }
    out
}

impl Property for C08 {
    type Case = Case;
    const ID: &'static str = "C08";

    fn rule() -> String {
        "proptest-generated insertion sequences built from runs of tiny contents (4095 fill a cluster, raw with hint No / compressed with hint Yes) and contents larger than half a cluster (one compressed cluster each), giving 3..60 clusters mixing raw and compressed; each sequence is created 4-6 times with different (perturbation plan, visible CPU count) pairs: plans inject seeded delays inside the public Progress callbacks (main thread at cluster opening, compression workers at handle_cluster, writer thread at handle_cluster_written): none / uniform random {0, yield, 100us, 400us, 2ms} / first compressed cluster slowest / writer slower than all workers / workers finish in reverse order / slow main thread; CPU counts 1..15 through sched_setaffinity (=> 1..14 workers, queue limits 2..28, both shorter and longer than the number of queued clusters). Oracle (metamorphic + model): every run terminates, every address returned resolves to its own bytes in a fresh reader, count and check() are right, the independent decoder finds every cluster inside the file and non-overlapping; addresses are identical across runs. Non-trivial = at least two runs of the case wrote their clusters to the file in different orders (observed through handle_cluster_written); distinct by (sequence shape, number of distinct orders). In half of the cases the first content of every segment / cluster is handed over as a file (InputFile), the others from memory (the writer copies the two kinds through different paths), every second one as a sub-range of its file. Segments of one incompressible content (240..256, 65500..65536 bytes: the stored size of its cluster exceeds the plain size) and of compressible contents with hint Detect are part of the sequences; 12 fixed cases put a lone incompressible cluster at an offset-width boundary between raw clusters; 3 fixed cases hold one content of 9, 17 or 33 MiB (a single cluster larger than the whole queue of a creator with one or two workers), created with 1, 2, 3 and 15 visible cpus; one fixed case whose producer pauses for 2.6 s and 4.6 s in the middle of the creation.".into()
    }

    fn assumptions() -> Vec<String> {
        vec!["completion orders are sampled through delays, not enumerated; the evidence reports how many distinct file orders were produced".into()]
    }

    fn cases(tier: Tier) -> u32 {
        match tier {
            Tier::Quick => 224,
            Tier::Thorough => 6000,
        }
    }

    fn case_timeout_s(_tier: Tier) -> u64 {
        600
    }

    /// a compressed cluster holding nothing but incompressible bytes whose stored size crosses a
    /// power of 256 the plain size stays below (the offset width of the cluster tail), between
    /// raw clusters, under two plans
    fn fixed_cases(_tier: Tier) -> Vec<Case> {
        let mut v = vec![];
        // one content bigger than the whole queue of a creator with a single worker (2 x 1 x 4 MiB)
        // and with two workers, created with 1, 2, 3 and 15 visible cpus
        for (comp, mib) in [(Comp::Lz4(1), 9u8), (Comp::Zstd(1), 17), (Comp::Lz4(1), 33)] {
            v.push(Case {
                comp,
                segs: vec![Seg::Tiny { n: 30, hint: Hint::No, seed: mib as u32 }, Seg::Huge { mib, seed: 3 }, Seg::Tiny { n: 20, hint: Hint::Yes, seed: 9 }],
                plans: vec![Plan { kind: PlanKind::None, seed: 1, cpus: 1 }, Plan { kind: PlanKind::Uniform, seed: 2, cpus: 2 }, Plan { kind: PlanKind::None, seed: 3, cpus: 3 }, Plan { kind: PlanKind::SlowWriter, seed: 4, cpus: 15 }],
                file_sources: mib == 17,
            });
        }
        // a producer that stops feeding the creator for seconds in the middle of a creation
        v.push(Case {
            comp: Comp::Zstd(3),
            segs: vec![Seg::Tiny { n: 4200, hint: Hint::Yes, seed: 5 }, Seg::Tiny { n: 4200, hint: Hint::No, seed: 6 }, Seg::Tiny { n: 4200, hint: Hint::Yes, seed: 7 }, Seg::Tiny { n: 50, hint: Hint::No, seed: 8 }],
            plans: vec![Plan { kind: PlanKind::LongPauses, seed: 1, cpus: 4 }, Plan { kind: PlanKind::None, seed: 2, cpus: 2 }],
            file_sources: false,
        });
        for comp in [Comp::Zstd(3), Comp::Lz4(3), Comp::Lzma(1)] {
            for len in [250u32, 255, 65530, 65535] {
                v.push(Case {
                    comp,
                    segs: vec![Seg::Tiny { n: 40, hint: Hint::No, seed: len }, Seg::Noise { len, seed: len ^ 77 }, Seg::Tiny { n: 25, hint: Hint::No, seed: len + 1 }],
                    plans: vec![Plan { kind: PlanKind::Uniform, seed: len, cpus: 2 }, Plan { kind: PlanKind::SlowWriter, seed: len, cpus: 8 }],
                    file_sources: len % 2 == 0,
                });
            }
        }
        v
    }

    fn strategy(tier: Tier) -> BoxedStrategy<Case> {
        let seg = prop_oneof![
            5 => (prop_oneof![2 => Just(4095u16), 2 => 4000u16..4200, 2 => 8190u16..8300, 1 => 1u16..300, 1 => 12285u16..12400], hint_yes_no(), any::<u32>()).prop_map(|(n, hint, seed)| Seg::Tiny { n, hint, seed }),
            2 => (1u8..=3, any::<u16>(), any::<u32>()).prop_map(|(n, extra, seed)| Seg::Big { n, extra, hint: Hint::Yes, seed }),
            1 => (prop_oneof![3 => 1u8..=3, 1 => 3u8..=6], hint_yes_no()).prop_map(|(clusters, hint)| Seg::Empties { clusters, hint }),
            1 => (prop_oneof![2 => 240u32..257, 2 => 65500u32..65537, 1 => 1000u32..3000], any::<u32>()).prop_map(|(len, seed)| Seg::Noise { len, seed }),
            1 => (1u8..=6, any::<u32>()).prop_map(|(n, seed)| Seg::Detect { n, seed }),
        ];
        let plan = (
            prop_oneof![
                1 => Just(PlanKind::None),
                4 => Just(PlanKind::Uniform),
                2 => Just(PlanKind::SlowFirstCompressed),
                2 => Just(PlanKind::SlowWriter),
                2 => Just(PlanKind::ReverseWorkers),
                1 => Just(PlanKind::SlowMain),
                1 => Just(PlanKind::VerySlowWorkers),
            ],
            any::<u32>(),
            prop_oneof![2 => Just(1u8), 2 => Just(2u8), 2 => Just(3u8), 1 => Just(4u8), 2 => Just(8u8), 2 => Just(15u8), 1 => 1u8..=15],
        )
            .prop_map(|(kind, seed, cpus)| Plan { kind, seed, cpus });
        let nplans = if tier == Tier::Thorough { 6 } else { 4 };
        (real_comp_strategy(), prop::collection::vec(seg, 2..7), prop::collection::vec(plan, nplans..=nplans), any::<bool>())
            .prop_map(|(comp, segs, plans, file_sources)| Case { comp: comp.tame(), segs, plans, file_sources })
            .boxed()
    }

    fn required_classes(_tier: Tier) -> Vec<&'static str> {
        vec!["file-sources", "plan:VerySlowWorkers", "orders-differ", "raw+compressed", "workers:1", "workers>=7", "queue-longer-than-limit", "clusters>=6"]
    }

    fn run(case: &Case, ctx: &Ctx) -> CaseResult {
        let mut info = CaseInfo::new();
        let items = expand(&case.segs);
        let seg_starts: Vec<usize> = {
            let mut at = 0usize;
            let mut v = vec![];
            for sg in &case.segs {
                v.push(at);
                // a raw cluster closes after 4095 blobs: the blob after it opens the next one
                if let Seg::Tiny { n, .. } = sg {
                    for c in (4095..*n as usize).step_by(4095) {
                        v.push(at + c);
                    }
                }
                at += match sg {
                    Seg::Tiny { n, .. } => *n as usize,
                    Seg::Big { n, .. } => *n as usize,
                    Seg::Empties { clusters, .. } => *clusters as usize * 4095,
                    Seg::Noise { .. } => 1,
                    Seg::Huge { .. } => 1,
                    Seg::Detect { n, .. } => *n as usize,
                };
            }
            v
        };
        if case.file_sources {
            info.class("file-sources");
        }
        let mut orders: Vec<Vec<u32>> = vec![];
        let mut first_addrs: Option<Vec<jbk::ContentAddress>> = None;
        let mut evals = 0u64;
        for (ri, plan) in case.plans.iter().enumerate() {
            let path = ctx.utf8("c08.jbkc");
            let _ = std::fs::remove_file(&path);
            let old = set_affinity(plan.cpus as usize);
            let perturb = Arc::new(Perturb { plan: plan.clone(), written: Mutex::new(vec![]), workers: Mutex::new(Default::default()), first_comp: Mutex::new(None), nclusters: Mutex::new(0), slow_budget: std::sync::atomic::AtomicI64::new(12) });
            let progress: Arc<dyn jbk::creator::Progress> = perturb.clone();
            let created = (|| -> Result<Vec<jbk::ContentAddress>, Failure> {
                let mut creator = match jbk::creator::ContentPackCreator::new_with_progress(&path, jbk::PackId::from(1), vendor(), Default::default(), case.comp.to_jbk(), progress) {
                    Ok(c) => c,
                    Err(e) => fail!("create-error", "{e}"),
                };
                let mut addrs = Vec::with_capacity(items.len());
                for (k, (b, h)) in items.iter().enumerate() {
                    let from_file = case.file_sources && (seg_starts.contains(&k) || k % 4095 == 0 || (k > 0 && items[k - 1].1 != *h));
                    // every second file-backed content is a sub-range of its file (origin > 0)
                    let source = match (from_file || (case.file_sources && *h == Hint::Detect), k % 2) {
                        (false, _) => crate::gen::Source::Mem,
                        (true, 0) => crate::gen::Source::File,
                        (true, _) => crate::gen::Source::FileRange { before: 1 + (k % 97) as u16, after: (k % 5) as u16 },
                    };
                    let reader = crate::gen::make_reader(b, source);
                    match creator.add_content(reader, h.to_jbk()) {
                        Ok(a) => addrs.push(a),
                        Err(e) => fail!("add-error", "run {ri}: add_content: {e}"),
                    }
                }
                match creator.finalize() {
                    Ok((f, _)) => drop(f),
                    Err(e) => fail!("finalize-error", "run {ri}: finalize: {e}"),
                }
                Ok(addrs)
            })();
            if let Some(old) = &old {
                restore_affinity(old);
            }
            let addrs = created?;
            let nworkers = perturb.workers.lock().unwrap().len();
            let expected_workers = (plan.cpus as usize).max(2) - 1;
            if old.is_some() {
                ensure!(nworkers <= expected_workers, "harness-worker-count", "harness: {nworkers} worker threads seen with {} cpus", plan.cpus);
            }
            info.class(format!("workers:{}", expected_workers.min(7)).replace("workers:7", "workers>=7"));
            info.class(format!("plan:{:?}", plan.kind));
            let order = perturb.written.lock().unwrap().clone();
            let nclusters = *perturb.nclusters.lock().unwrap();
            if nclusters >= 6 {
                info.class("clusters>=6");
            }
            // addresses do not depend on the schedule
            match &first_addrs {
                None => first_addrs = Some(addrs.clone()),
                Some(f) => ensure!(f == &addrs, "addresses-depend-on-schedule", "run {ri} ({plan:?}) returned different addresses than run 0"),
            }
            // fresh reader: every address resolves to its own bytes
            let reader: jbk::Reader = jbk::FileSource::open(path.as_std_path()).unwrap().into();
            let pack = match jbk::reader::ContentPack::new(reader) {
                Ok(p) => p,
                Err(e) => fail!("open-error", "run {ri} ({plan:?}): created pack does not open: {e}"),
            };
            let expected: Vec<(jbk::ContentAddress, Vec<u8>)> = addrs.iter().cloned().zip(items.iter().map(|i| i.0.clone())).collect();
            if let Err(mut f) = super::c01::verify_pack(&pack, &expected, items.len()) {
                f.msg = format!("run {ri} ({plan:?}, written order {:?}): {}", &order[..order.len().min(20)], f.msg);
                return Err(f);
            }
            drop(pack);
            evals += items.len() as u64;
            // layout: clusters inside the file, not overlapping (independent decoder)
            let data = std::fs::read(path.as_std_path()).unwrap();
            match crate::indep::decode_file(&data) {
                Ok(fd) => {
                    if let crate::indep::PackBody::Content(cp) = &fd.packs[0].body {
                        ensure!(cp.clusters.len() as u32 == nclusters, "cluster-count", "run {ri}: {} clusters on disk, {nclusters} opened", cp.clusters.len());
                        let raw = cp.clusters.iter().filter(|c| c.comp == 0).count();
                        if raw > 0 && raw < cp.clusters.len() {
                            info.class("raw+compressed");
                        }
                        // whatever the schedule, the hint decides how a content is stored (C16's oracle)
                        for (i, ((_, h), a)) in items.iter().zip(addrs.iter()).enumerate() {
                            let (cl, _) = cp.contents[a.content_id.into_u32() as usize];
                            let nib = cp.clusters[cl as usize].comp;
                            if *h == Hint::Detect {
                                continue; // Detect is only required to round-trip
                            }
                            let want = if *h == Hint::Yes { case.comp.code() } else { 0 };
                            ensure!(
                                nib == want,
                                "hint-vs-storage-under-schedule",
                                "run {ri} ({plan:?}): insertion #{i} (hint {h:?}) lies in a cluster with compression {nib}, expected {want}"
                            );
                        }
                        let queued = cp.clusters.len() - raw;
                        if queued > 2 * expected_workers {
                            info.class("queue-longer-than-limit");
                        } else {
                            info.class("queue-within-limit");
                        }
                    }
                }
                Err(e) => fail!("indep-layout", "run {ri} ({plan:?}): independent decoder rejects the pack: {e}"),
            }
            ensure!(order.len() as u32 == nclusters, "written-count", "run {ri}: {} clusters reported written, {nclusters} opened", order.len());
            orders.push(order);
            let _ = std::fs::remove_file(&path);
        }
        let distinct: std::collections::BTreeSet<&Vec<u32>> = orders.iter().collect();
        if distinct.len() >= 2 {
            info.class("orders-differ");
        }
        info.class(format!("distinct-orders:{}", distinct.len()));
        info.evals = evals.max(1);
        info.nontrivial = distinct.len() >= 2;
        let shape: Vec<String> = case
            .segs
            .iter()
            .map(|s| match s {
                Seg::Tiny { n, hint, .. } => format!("t{}{:?}", n / 4095, hint),
                Seg::Big { n, .. } => format!("b{n}"),
                Seg::Empties { clusters, hint } => format!("e{clusters}{hint:?}"),
                Seg::Noise { len, .. } => format!("n{}", len / 256),
                Seg::Huge { mib, .. } => format!("h{mib}"),
                Seg::Detect { n, .. } => format!("d{n}"),
            })
            .collect();
        info.key = hash_str(&format!("{:?}|{shape:?}|{}", case.comp, distinct.len()));
        Ok(info)
    }
}

fn hint_yes_no() -> BoxedStrategy<Hint> {
    prop_oneof![Just(Hint::Yes), Just(Hint::No)].boxed()
}
