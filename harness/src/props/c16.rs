//! C16 — the compression hint decides how a content is stored.

use crate::engine::*;
use crate::gen::*;
use crate::{ensure, fail};
use jubako as jbk;
use proptest::prelude::*;
use serde::{Deserialize, Serialize};
use std::rc::Rc;

#[derive(Serialize, Deserialize, Clone, Debug)]
pub struct Case {
    pub comp: Comp,
    pub dedup: bool,
    pub contents: Vec<ContentSpec>,
}

pub struct C16;

impl Property for C16 {
    type Case = Case;
    const ID: &'static str = "C16";

    fn rule() -> String {
        "proptest-generated insertion sequences mixing hints Yes/No/Detect, all compressions incl. None and all levels, with and without the dedup adder, duplicates inserted with different hints. Oracle (independent decoder on the bytes of the created pack): a content inserted with No, or into a pack created with Compression::None, lies in a cluster whose compression nibble is 0 and whose bytes are found verbatim in the file at cluster data start + blob offset; a content inserted with Yes into a compressing pack lies in a cluster whose nibble is the pack's algorithm and whose payload decompresses with that algorithm's own library to data holding the content at its blob range; Detect only round-trips. Dedup adder: two insertions return one address iff their bytes are equal, and the pack holds one content per distinct byte string. Non-trivial = both hints Yes and No present in a compressing pack, or a duplicate pair; distinct by (compression, dedup, hint pattern, lengths). 435 fixed cases: tiny compressed clusters (1..=96 zero bytes; 32 incompressible bytes + 0..=48 zeros) per algorithm, among which the compressed stream is sometimes exactly as long as the data. Two fixed cases: 70 000 distinct contents through the dedup adder, then twenty of them again.".into()
    }

    /// tiny compressed clusters whose compressed stream may be exactly as long as their data
    /// (stored size == data size is a coincidence, not a sign of an uncompressed cluster): runs of
    /// 1..=96 zero bytes, and 32 incompressible bytes followed by 0..=48 zeros, per algorithm
    fn fixed_cases(_tier: Tier) -> Vec<Case> {
        let c = |len: u32, ent: Entropy, hint: Hint, seed: u32| ContentSpec { len, ent, seed, hint, source: Source::Mem, dup_of: None, flip: None };
        let mut v = vec![];
        for comp in [Comp::Lz4(3), Comp::Lzma(2), Comp::Zstd(3)] {
            for n in 1..=96u32 {
                v.push(Case { comp, dedup: false, contents: vec![c(n, Entropy::Zero, Hint::Yes, n), c(7, Entropy::Text, Hint::No, n + 1)] });
            }
            for k in 0..=48u32 {
                v.push(Case { comp, dedup: false, contents: vec![c(32, Entropy::High, Hint::Yes, k + 500), c(k, Entropy::Zero, Hint::Yes, k), c(5, Entropy::Text, Hint::No, k + 1)] });
            }
        }
        // the dedup adder must remember every content it has seen, however many came in between:
        // 70 000 distinct small contents, then the first ten and ten from the middle again
        for (comp, hint) in [(Comp::None, Hint::No), (Comp::Lz4(1), Hint::Yes)] {
            let mut contents: Vec<ContentSpec> = (0..70_000u32).map(|i| c(6 + i % 5, Entropy::High, hint, 1_000_000 + i)).collect();
            for i in (0..10u16).chain(30_000..30_010) {
                let mut d = c(0, Entropy::High, hint, 0);
                d.dup_of = Some(((i as u32 * 65536) / 70_000 + 1) as u16);
                contents.push(d);
            }
            v.push(Case { comp, dedup: true, contents });
        }
        v
    }

    fn cases(tier: Tier) -> u32 {
        match tier {
            Tier::Quick => 4800,
            Tier::Thorough => 150000,
        }
    }

    fn strategy(tier: Tier) -> BoxedStrategy<Case> {
        let seq = prop_oneof![
            30 => prop::collection::vec(content_strategy(LenClass::Any, false), 0..12),
            20 => prop::collection::vec(content_strategy(LenClass::Small, false), 5..60),
            4 => prop::collection::vec(content_strategy(LenClass::Small, true), 60..300),
            if tier == Tier::Thorough { 2 } else { 1 } => prop::collection::vec(content_strategy(LenClass::Tiny, true), 4090..4102),
            3 => same_hint_run_strategy(),
            1 => big_near_duplicate_strategy(),
        ];
        (comp_strategy(), any::<bool>(), seq)
            .prop_map(|(comp, dedup, contents)| {
                let total: u64 = contents.iter().map(|x| x.len as u64).sum();
                Case { comp: if total > 64 * 1024 { comp.tame() } else { comp }, dedup, contents }
            })
            .boxed()
    }

    fn required_classes(_tier: Tier) -> Vec<&'static str> {
        vec!["full-raw-cluster-in-compressing-pack", "near-duplicate>=4MiB-dedup", "mixed-hints-compressing", "duplicate-pair", "dedup", "comp:none", "comp:lz4", "comp:lzma", "comp:zstd", "duplicate-different-hints", "hint-yes-checked", "hint-no-checked"]
    }

    fn run(case: &Case, ctx: &Ctx) -> CaseResult {
        let mut info = CaseInfo::new();
        let bytes = resolve_contents(&case.contents);
        let path = ctx.utf8("c16.jbkc");
        let _ = std::fs::remove_file(&path);
        let creator = match jbk::creator::ContentPackCreator::new(&path, jbk::PackId::from(1), vendor(), Default::default(), case.comp.to_jbk()) {
            Ok(c) => c,
            Err(e) => fail!("create-error", "ContentPackCreator::new: {e}"),
        };
        let mut addrs: Vec<jbk::ContentAddress> = vec![];
        let mut add = |adder: &mut dyn jbk::creator::ContentAdder| -> Result<(), Failure> {
            for (c, b) in case.contents.iter().zip(bytes.iter()) {
                match adder.add_content(make_reader(b, c.source), c.hint.to_jbk()) {
                    Ok(a) => addrs.push(a),
                    Err(e) => fail!("add-error", "add_content failed: {e}"),
                }
            }
            Ok(())
        };
        let fin = if case.dedup {
            let mut adder = jbk::creator::CachedContentAdder::new(creator, Rc::new(()));
            add(&mut adder)?;
            adder.into_inner().finalize()
        } else {
            let mut creator = creator;
            add(&mut creator)?;
            creator.finalize()
        };
        match fin {
            Ok((f, _)) => drop(f),
            Err(e) => fail!("finalize-error", "finalize failed: {e}"),
        }
        let data = std::fs::read(path.as_std_path()).unwrap();
        let _ = std::fs::remove_file(&path);
        let fd = match crate::indep::decode_file(&data) {
            Ok(fd) => fd,
            Err(e) => fail!("indep-layout", "independent decoder rejects the pack: {e}"),
        };
        let crate::indep::PackBody::Content(cp) = &fd.packs[0].body else {
            fail!("indep-layout", "not a content pack");
        };
        info.class(format!("comp:{}", case.comp.name()));
        if case.dedup {
            info.class("dedup");
        }
        // which insertion actually stored each content: the first one carrying these bytes (dedup),
        // every one otherwise
        let mut first_of: std::collections::HashMap<&Vec<u8>, usize> = Default::default();
        let mut decoded_clusters: std::collections::BTreeMap<u32, Vec<u8>> = Default::default();
        let mut evals = 0u64;
        for (i, (c, b)) in case.contents.iter().zip(bytes.iter()).enumerate() {
            let first = *first_of.entry(b).or_insert(i);
            if first != i {
                info.class("duplicate-pair");
                if case.contents[first].hint != c.hint {
                    info.class("duplicate-different-hints");
                }
            }
            let a = addrs[i];
            if case.dedup {
                ensure!(
                    a == addrs[first],
                    "dedup-address",
                    "dedup adder: insertion #{i} has the bytes of #{first} but another address ({a:?} vs {:?})",
                    addrs[first]
                );
                for (j, aj) in addrs[..i].iter().enumerate() {
                    if *aj == a && &bytes[j] != b {
                        fail!("dedup-address-collision", "dedup adder: insertions #{j} and #{i} share address {a:?} with different bytes");
                    }
                }
                if first != i {
                    continue; // not stored again: the first insertion's hint decided
                }
            } else {
                ensure!(a.content_id.into_u32() as usize == i, "address-sequence", "insertion #{i} returned {a:?}");
            }
            let cid = a.content_id.into_u32() as usize;
            ensure!(cid < cp.contents.len(), "address-out-of-pack", "insertion #{i}: address {a:?} beyond the {} contents of the pack", cp.contents.len());
            let (cl, blob) = cp.contents[cid];
            let cluster = &cp.clusters[cl as usize];
            let (bo, be) = (cluster.blob_offsets[blob as usize], cluster.blob_offsets[blob as usize + 1]);
            ensure!(be - bo == b.len() as u64, "blob-size", "insertion #{i}: blob size {} != content size {}", be - bo, b.len());
            let must_raw = c.hint == Hint::No || case.comp == Comp::None;
            let must_comp = c.hint == Hint::Yes && case.comp != Comp::None;
            if must_raw {
                info.class("hint-no-checked");
                ensure!(
                    cluster.comp == 0,
                    "hint-no-compressed",
                    "insertion #{i} (hint {:?}, pack {:?}) lies in a cluster with compression {}",
                    c.hint,
                    case.comp,
                    cluster.comp
                );
                let s = (cluster.data_start + bo) as usize;
                ensure!(
                    &data[s..s + b.len()] == b.as_slice(),
                    "hint-no-not-verbatim",
                    "insertion #{i}: bytes at cluster data start + blob offset are not the content"
                );
            } else {
                if must_comp {
                    info.class("hint-yes-checked");
                    ensure!(
                        cluster.comp == case.comp.code(),
                        "hint-yes-wrong-cluster",
                        "insertion #{i} (hint Yes, pack {:?}) lies in a cluster with compression {}",
                        case.comp,
                        cluster.comp
                    );
                }
                if !decoded_clusters.contains_key(&cl) {
                    match crate::indep::cluster_data(&data, cluster) {
                        Ok(d) => {
                            decoded_clusters.insert(cl, d);
                        }
                        Err(e) => fail!("cluster-undecodable", "cluster {cl} does not decode with the library of algorithm {}: {e}", cluster.comp),
                    }
                }
                let d = &decoded_clusters[&cl];
                ensure!(
                    &d[bo as usize..be as usize] == b.as_slice(),
                    "content-bytes",
                    "insertion #{i}: decoded cluster data at its blob range is not the content"
                );
            }
            evals += 1;
        }
        let distinct: std::collections::HashSet<&Vec<u8>> = bytes.iter().collect();
        let expected_count = if case.dedup { distinct.len() } else { bytes.len() };
        ensure!(
            cp.contents.len() == expected_count,
            "content-count",
            "pack holds {} contents, expected {expected_count} (dedup={})",
            cp.contents.len(),
            case.dedup
        );
        // raw and compressed clusters never share: nibble is per cluster, already checked per content
        if case.comp != Comp::None && cp.clusters.iter().any(|c| c.comp == 0 && c.blob_offsets.len() - 1 == 4095) {
            info.class("full-raw-cluster-in-compressing-pack");
        }
        if case.dedup && case.contents.iter().zip(bytes.iter()).any(|(c, b)| c.flip.is_some() && c.dup_of.is_some() && b.len() >= 4 << 20) {
            info.class("near-duplicate>=4MiB-dedup");
        }
        let has_yes = case.contents.iter().any(|c| c.hint == Hint::Yes);
        let has_no = case.contents.iter().any(|c| c.hint == Hint::No);
        if has_yes && has_no && case.comp != Comp::None {
            info.class("mixed-hints-compressing");
        }
        info.evals = evals.max(1);
        info.nontrivial = info.classes.iter().any(|c| c == "mixed-hints-compressing" || c == "duplicate-pair");
        let hints: Vec<Hint> = case.contents.iter().map(|c| c.hint).collect();
        let lens: Vec<usize> = bytes.iter().map(|b| b.len()).collect();
        info.key = hash_str(&format!("{:?}|{}|{:?}|{:?}", case.comp, case.dedup, hints, lens));
        Ok(info)
    }
}
