//! C15 — references between entries resolve to the referenced entry's final position.

use super::c02::{packaging_opt, run_dir_case, Case};
use crate::dirgen::*;
use crate::engine::*;
use crate::indep::DVal;
use crate::{ensure, fail};
use jubako as jbk;
use jbk::creator::schema;
use jbk::reader::Range;
use proptest::prelude::*;
use serde::{Deserialize, Serialize};
use std::collections::HashMap;

pub struct C15;

/// A forest stored in a store SORTED ON THE REFERENCE ITSELF: key = (position of the parent,
/// name). The final order is a fixed point the creator reaches by re-sorting; the model cannot
/// predict it without repeating that algorithm, so the oracle is a validity predicate over what
/// was stored (self-consistency), not an expected order.
#[derive(Serialize, Deserialize, Clone, Debug)]
pub struct TreeSpec {
    /// parent of node i = pick(sel, i + 1) among nodes 0..=i (i itself: a root, self reference)
    pub parents: Vec<u16>,
    /// 0 natural (parents first), 1 reversed (children first), 2.. shuffled with this seed
    pub order: u32,
    /// Some(k): a root does not refer to itself but carries the plain number k in the reference
    /// column (the column then mixes plain and bound values, all plain ones being equal)
    #[serde(default)]
    pub root_plain: Option<u16>,
}

/// Two stores in one directory pack: A sorted on a unique key, B with a column bound to the
/// position of entries of A (the referenced store added first, as the creator requires).
#[derive(Serialize, Deserialize, Clone, Debug)]
pub struct CrossSpec {
    pub n_a: u16,
    /// 0 insert A in key order, 1 reversed, 2.. shuffled with this seed
    pub order: u32,
    /// B's entries: which entry of A (by insertion number, pick) each refers to
    pub targets: Vec<u16>,
    /// B sorted on its reference column
    pub b_sorted: bool,
    /// only entries of A inserted among the first 200 are referenced (their provisional
    /// positions fit one byte whatever their final position)
    pub early_targets: bool,
    /// the REFERENCING store B is added to the directory pack before the referenced store A. Never
    /// generated: on the unchanged tree that order stores references truncated to the width the
    /// provisional positions needed, or stops on an assertion (DESIGN §14: outside the listed
    /// property, which speaks of references among the entries of a store). Kept for replays only.
    #[serde(default)]
    pub b_first: bool,
}

#[derive(Serialize, Deserialize, Clone, Debug)]
pub enum C15Case {
    Dir(Case),
    Tree(TreeSpec),
    Cross(CrossSpec),
}

fn run_cross(t: &CrossSpec, ctx: &Ctx, info: &mut CaseInfo) -> Result<(), Failure> {
    let n = t.n_a.max(1) as usize;
    // insertion k of A carries key keys[k]; final position of insertion k = keys[k] (keys are a permutation of 0..n)
    let mut keys: Vec<usize> = (0..n).collect();
    match t.order {
        0 => {}
        1 => keys.reverse(),
        seed => {
            let mut x = seed as u64 | 1;
            for i in (1..n).rev() {
                x = splitmix(x);
                keys.swap(i, (x % (i as u64 + 1)) as usize);
            }
        }
    }
    let sch_a = schema::Schema::new(schema::CommonProperties::new(vec![schema::Property::new_uint("c0"), schema::Property::new_uint("c1")]), vec![], Some(vec!["c0"]));
    let mut a = Box::new(EStore::new(sch_a, None));
    let mut handles_a = vec![];
    for (k, key) in keys.iter().enumerate() {
        let mut hm: HashMap<&'static str, jbk::Value> = HashMap::new();
        hm.insert("c0", jbk::Value::Unsigned(*key as u64 * 3 + 7));
        hm.insert("c1", jbk::Value::Unsigned(k as u64));
        handles_a.push(a.add_entry(EntryType::new_from_schema(&a.schema, None, hm)));
    }
    let sch_b = schema::Schema::new(
        schema::CommonProperties::new(vec![schema::Property::new_uint("c0"), schema::Property::new_uint("c1")]),
        vec![],
        if t.b_sorted { Some(vec!["c0", "c1"]) } else { None },
    );
    let mut b = Box::new(EStore::new(sch_b, None));
    let lim = if t.early_targets { n.min(200) } else { n };
    let targets: Vec<usize> = t.targets.iter().map(|s| pick(*s, lim)).collect();
    for (j, tg) in targets.iter().enumerate() {
        let mut hm: HashMap<&'static str, jbk::Value> = HashMap::new();
        hm.insert("c0", jbk::Value::UnsignedWord(handles_a[*tg].clone().into()));
        hm.insert("c1", jbk::Value::Unsigned(j as u64));
        b.add_entry(EntryType::new_from_schema(&b.schema, None, hm));
    }
    let mut dp = jbk::creator::DirectoryPackCreator::new(jbk::PackId::from(0), crate::gen::vendor(), Default::default());
    // the referenced store is added first: a store's column widths are fixed when it is finalised,
    // in the order the stores were added, from the positions known at that moment (adding the
    // referencing store first makes creation stop on an assertion for some inputs on the pinned
    // tree; the property speaks of references among the entries of a store, so that order is not
    // demanded here — DESIGN §14)
    let (sa, sb) = if t.b_first {
        info.class("cross:referencing-store-added-first");
        let sb = dp.add_entry_store(b);
        (dp.add_entry_store(a), sb)
    } else {
        let sa = dp.add_entry_store(a);
        (sa, dp.add_entry_store(b))
    };
    dp.create_index("a", Default::default(), 0.into(), sa, (n as u32).into(), jbk::EntryIdx::from(0).into());
    dp.create_index("b", Default::default(), 0.into(), sb, (targets.len() as u32).into(), jbk::EntryIdx::from(0).into());
    let path = ctx.path("cross.jbkd");
    let mut file = std::fs::OpenOptions::new().read(true).write(true).create(true).truncate(true).open(&path).unwrap();
    let written = std::panic::catch_unwind(std::panic::AssertUnwindSafe(|| -> Result<(), Failure> {
        match dp.finalize() {
            Ok(f) => {
                if let Err(e) = f.write(&mut file) {
                    fail!("dir-write-error", "{e}");
                }
                Ok(())
            }
            Err(e) => fail!("dir-finalize-error", "{e}"),
        }
    }));
    match written {
        Ok(r) => r?,
        Err(p) => {
            if t.b_first {
                // refused loudly: nothing is stored altered
                let _ = take_panic();
                info.class("cross:referencing-store-first-refused");
                return Ok(());
            }
            std::panic::resume_unwind(p);
        }
    }
    let dpk = match open_directory_pack(&path) {
        Ok(d) => d,
        Err(e) => fail!("dir-unreadable", "{e}"),
    };
    let estorage = dpk.create_entry_storage();
    let vstorage = dpk.create_value_storage();
    let oa = match open_index(&dpk, &|ix| ix.get_store(&estorage), &vstorage, "a") {
        Ok(o) => o,
        Err(e) => fail!("store-unreadable", "{e}"),
    };
    let ob = match open_index(&dpk, &|ix| ix.get_store(&estorage), &vstorage, "b") {
        Ok(o) => o,
        Err(e) => fail!("store-unreadable", "{e}"),
    };
    ensure!(oa.count() == n && ob.count() == targets.len(), "window-count", "cross: indexes expose {} and {} entries, {n} and {} written", oa.count(), ob.count(), targets.len());
    let get = |oi: &OpenIndex, p: usize, what: &str| -> Result<(u64, u64), Failure> {
        let (_, vals) = match oi.entry(p as u32) {
            Ok(Some(e)) => e,
            other => fail!("entry-error", "cross {what} entry {p}: {:?}", other.map(|o| o.is_some())),
        };
        match (vals.get("c0"), vals.get("c1")) {
            (Some(DVal::U(x)), Some(DVal::U(y))) => Ok((*x, *y)),
            other => fail!("value-kind-mismatch", "cross {what} entry {p}: {other:?}"),
        }
    };
    // A: entry at final position p carries key 3p+7 and the insertion number whose key is p
    let mut final_of = vec![usize::MAX; n];
    for p in 0..n {
        let (c0, c1) = get(&oa, p, "A")?;
        ensure!(c0 == p as u64 * 3 + 7, "cross-a-order", "store A position {p} holds key {c0}, expected {}", p * 3 + 7);
        ensure!((c1 as usize) < n && keys[c1 as usize] == p, "unsigned-value-mismatch", "store A position {p}: insertion number {c1}");
        final_of[c1 as usize] = p;
    }
    for (k, h) in handles_a.iter().enumerate() {
        let got = h.get().into_u32() as usize;
        ensure!(got == final_of[k], "bound-final-position", "store A: handle of insertion #{k} reports position {got}, final position is {}", final_of[k]);
    }
    // B: every stored reference is the final position in A of the entry it was bound to
    let mut seen = vec![false; targets.len()];
    let mut prev: Option<(u64, u64)> = None;
    for p in 0..targets.len() {
        let (c0, c1) = get(&ob, p, "B")?;
        let j = c1 as usize;
        ensure!(j < targets.len() && !seen[j], "cross-b-not-a-permutation", "store B position {p} carries insertion number {c1}");
        seen[j] = true;
        ensure!(
            c0 as usize == final_of[targets[j]],
            "cross-store-reference-not-final-position",
            "store B entry {p} (insertion #{j}) stores {c0}; the entry of store A it is bound to (insertion #{}) is finally at {}",
            targets[j],
            final_of[targets[j]]
        );
        if t.b_sorted {
            if let Some(pv) = prev {
                ensure!(pv < (c0, c1), "cross-b-not-sorted", "store B entries {} and {p} not in increasing order", p - 1);
            }
            prev = Some((c0, c1));
        } else {
            ensure!(j == p, "cross-b-order", "unsorted store B position {p} holds insertion #{j}");
        }
    }
    if keys.iter().enumerate().any(|(k, key)| k != *key) {
        info.class("referenced-entry-moved");
    }
    info.class("cross-store-reference");
    if t.early_targets && n > 300 {
        info.class("cross-store:early-targets-in-big-store");
    }
    info.class(if n >= 2000 { "cross-store:A>=2000" } else { "cross-store:A<2000" });
    info.evals = (n + targets.len()) as u64;
    let _ = std::fs::remove_file(&path);
    Ok(())
}

fn run_tree(t: &TreeSpec, ctx: &Ctx, info: &mut CaseInfo) -> Result<(), Failure> {
    let n = t.parents.len();
    let parent: Vec<usize> = t.parents.iter().enumerate().map(|(i, s)| pick(*s, i + 1)).collect();
    let mut order: Vec<usize> = (0..n).collect();
    match t.order {
        0 => {}
        1 => order.reverse(),
        seed => {
            let mut x = seed as u64 | 1;
            for i in (1..n).rev() {
                x = splitmix(x);
                order.swap(i, (x % (i as u64 + 1)) as usize);
            }
        }
    }
    let depth = |mut i: usize| {
        let mut d = 0;
        while parent[i] != i {
            i = parent[i];
            d += 1;
        }
        d
    };
    let maxd = (0..n).map(depth).max().unwrap_or(0);
    info.class(format!("tree-depth:{}", maxd.min(4)));
    info.class(match t.order {
        0 => "tree-order:parents-first",
        1 => "tree-order:children-first",
        _ => "tree-order:shuffled",
    });
    let sch = schema::Schema::new(
        schema::CommonProperties::new(vec![schema::Property::new_uint("c0"), schema::Property::new_uint("c1"), schema::Property::new_uint("c2")]),
        vec![],
        Some(vec!["c0", "c1"]),
    );
    let vows: Vec<jbk::Vow<jbk::EntryIdx>> = (0..n).map(|_| jbk::Vow::new(jbk::EntryIdx::from(0))).collect();
    let bound_of: Vec<jbk::Bound<jbk::EntryIdx>> = vows.iter().map(|v| v.bind()).collect();
    let mut vows: Vec<Option<jbk::Vow<jbk::EntryIdx>>> = vows.into_iter().map(Some).collect();
    let mut handles: Vec<(usize, jbk::Bound<jbk::EntryIdx>)> = vec![];
    let mut dp = jbk::creator::DirectoryPackCreator::new(jbk::PackId::from(0), crate::gen::vendor(), Default::default());
    // every second tree is kept in a store of BOXED entries (`EntryStore<_, _, Box<BasicEntry>>`, what an
    // application with several entry types behind one trait object uses): the box forwards to the entry
    let boxed = n % 2 == 1;
    macro_rules! fill {
        ($es:ident, $wrap:expr) => {{
            for node in &order {
                let mut hm: HashMap<&'static str, jbk::Value> = HashMap::new();
                match t.root_plain {
                    Some(k) if parent[*node] == *node => hm.insert("c0", jbk::Value::Unsigned(k as u64)),
                    _ => hm.insert("c0", jbk::Value::UnsignedWord(bound_of[parent[*node]].clone().into())),
                };
                hm.insert("c1", jbk::Value::Unsigned(1000 + *node as u64)); // the name: unique
                hm.insert("c2", jbk::Value::Unsigned(*node as u64)); // the identity
                let e = EntryType::new_from_schema_idx(&$es.schema, vows[*node].take().unwrap(), None, hm);
                handles.push((*node, $es.add_entry($wrap(e))));
            }
            dp.add_entry_store($es)
        }};
    }
    let sid = if boxed {
        info.class("tree:boxed-entries");
        let mut es = Box::new(jbk::creator::EntryStore::<&'static str, &'static str, Box<EntryType>>::new(sch, None));
        fill!(es, Box::new)
    } else {
        let mut es = Box::new(EStore::new(sch, None));
        fill!(es, std::convert::identity)
    };
    dp.create_index("tree", Default::default(), 0.into(), sid, (n as u32).into(), jbk::EntryIdx::from(0).into());
    let path = ctx.path("tree.jbkd");
    let mut file = std::fs::OpenOptions::new().read(true).write(true).create(true).truncate(true).open(&path).unwrap();
    match dp.finalize() {
        Ok(f) => {
            if let Err(e) = f.write(&mut file) {
                fail!("dir-write-error", "{e}");
            }
        }
        Err(e) => fail!("dir-finalize-error", "{e}"),
    }
    drop(file);
    let dpk = match open_directory_pack(&path) {
        Ok(d) => d,
        Err(e) => fail!("dir-unreadable", "{e}"),
    };
    let estorage = dpk.create_entry_storage();
    let vstorage = dpk.create_value_storage();
    let oi = match open_index(&dpk, &|ix| ix.get_store(&estorage), &vstorage, "tree") {
        Ok(o) => o,
        Err(e) => fail!("store-unreadable", "{e}"),
    };
    ensure!(oi.count() == n, "window-count", "tree index exposes {} entries, {n} written", oi.count());
    let mut pos_of = vec![usize::MAX; n];
    let mut rows: Vec<(u64, u64, u64)> = vec![];
    for p in 0..n {
        let (_, vals) = match oi.entry(p as u32) {
            Ok(Some(e)) => e,
            other => fail!("entry-error", "tree entry {p}: {:?}", other.map(|o| o.is_some())),
        };
        let g = |k: &str| match vals.get(k) {
            Some(DVal::U(x)) => Ok(*x),
            other => Err(Failure::new("value-kind-mismatch", format!("tree entry {p} property {k}: {other:?}"))),
        };
        let (c0, c1, c2) = (g("c0")?, g("c1")?, g("c2")?);
        ensure!((c2 as usize) < n && pos_of[c2 as usize] == usize::MAX, "tree-not-a-permutation", "tree entry {p} carries identity {c2} (duplicate or out of range)");
        pos_of[c2 as usize] = p;
        rows.push((c0, c1, c2));
    }
    for (p, (c0, c1, c2)) in rows.iter().enumerate() {
        let node = *c2 as usize;
        ensure!(*c1 == 1000 + node as u64, "unsigned-value-mismatch", "tree entry {p}: name {c1} for node {node}");
        if let (Some(k), true) = (t.root_plain, parent[node] == node) {
            ensure!(*c0 == k as u64, "unsigned-value-mismatch", "tree entry {p} (root node {node}): plain value {k} in the reference column reads back as {c0}");
            if p > 0 {
                let prev = (rows[p - 1].0, rows[p - 1].1);
                ensure!(prev < (*c0, *c1), "tree-not-sorted", "tree entries {} and {p} are not in increasing key order: {:?} then {:?}", p - 1, prev, (c0, c1));
            }
            continue;
        }
        ensure!(
            *c0 as usize == pos_of[parent[node]],
            "tree-reference-not-final-position",
            "tree entry {p} (node {node}): stored reference {c0}, its parent (node {}) is finally at {}",
            parent[node],
            pos_of[parent[node]]
        );
        if p > 0 {
            let prev = (rows[p - 1].0, rows[p - 1].1);
            ensure!(prev < (*c0, *c1), "tree-not-sorted", "tree entries {} and {p} are not in increasing key order: {:?} then {:?}", p - 1, prev, (c0, c1));
        }
    }
    for (node, b) in &handles {
        let got = b.get().into_u32() as usize;
        ensure!(got == pos_of[*node], "bound-final-position", "handle of node {node} reports position {got}, the entry is finally at {}", pos_of[*node]);
    }
    // lookup by (parent position, name): binary and linear
    for p in (0..n).step_by((n / 40).max(1)) {
        let key = vec![("c0", DVal::U(rows[p].0)), ("c1", DVal::U(rows[p].1))];
        for ordered in [true, false] {
            let c = KeyCmp { builder: &oi.builder, keys: key.clone(), ordered };
            match oi.index.find(&c) {
                Ok(Some(i)) if i.into_u32() as usize == p => {}
                other => fail!(if ordered { "find-present-ordered" } else { "find-present-linear" }, "tree: find(key of entry {p}, ordered={ordered}) = {:?}", other.map(|o| o.map(|i| i.into_u32())).map_err(|e| e.to_string())),
            }
        }
    }
    let moved = handles.iter().enumerate().filter(|(k, (node, _))| pos_of[*node] != *k).count();
    if moved > 0 {
        info.class("referenced-entry-moved");
    }
    info.class("tree:reference-in-sort-key");
    if t.root_plain.is_some() && (0..n).any(|i| parent[i] != i) {
        info.class("tree:plain-and-bound-values-in-one-column");
    }
    info.evals = (3 * n as u64).max(1);
    let _ = std::fs::remove_file(&path);
    Ok(())
}

impl Property for C15 {
    type Case = C15Case;
    const ID: &'static str = "C15";

    fn rule() -> String {
        "(i) proptest-generated directory specs with Ref columns (unsigned, and signed SRef, column bound, through Vow/Bound created before any entry is added, to the position of another entry of the same store): forward, backward and self references, chains, constant Ref columns (all rows reference one entry), sorted (1-3 keys) and unsorted stores, 0..600 entries and 2000..6000 entries (parallel sort and parallel index assignment). Oracle: model final positions (independent sort of the distinct keys): the value read back for a Ref column equals the final position of its target (real reader and independent decoder), and every Bound returned by add_entry reports the final position of its entry after finalisation. (ii) forests stored in a store sorted ON the reference itself (key = position of the parent, then a unique name; 1..120 nodes, chains and bushy trees, inserted parents-first, children-first or shuffled): the final order is a fixed point of the creator's re-sort loop, so the oracle is a validity predicate over what was stored: the identities form a permutation, every stored reference equals the final position of the parent, keys are strictly increasing, every Bound reports the final position, binary and linear lookup of (parent position, name) find the entry. Non-trivial = a sorted store in which at least one referenced entry moved from its insertion position; distinct by (graph classes, schema, size). (iii) trees whose roots carry a plain number in the reference column (plain and bound values mixed in one column); (iv) cross-store references: store A sorted on a unique key (1..30000 entries, inserted in order / reversed / shuffled), store B (sorted or not) with a column bound to entries of A (optionally only to entries inserted among the first 200), A added first: every value stored in B equals the final position in A of the entry it was bound to. A tree whose roots carry a plain number k > 0 need not have any order consistent with its own positions; the creator's loud refusal (Cannot sort entry store) is then accepted and counted (tree:refused-no-consistent-order), never with self-referring roots or roots carrying 0. Every second tree is kept in a store of boxed entries (EntryStore<_, _, Box<BasicEntry>>).".into()
    }

    fn cases(tier: Tier) -> u32 {
        match tier {
            Tier::Quick => 9600,
            Tier::Thorough => 250000,
        }
    }

    fn strategy(tier: Tier) -> BoxedStrategy<C15Case> {
        let tree = (prop::collection::vec(prop_oneof![2 => any::<u16>(), 1 => Just(u16::MAX), 1 => Just(0u16)], 1..120), prop_oneof![Just(0u32), Just(1u32), 2u32..1000])
            .prop_map(|(parents, order)| {
                let root_plain = match order % 3 {
                    0 => None,
                    1 => Some(0),
                    _ => Some((order % 700) as u16),
                };
                C15Case::Tree(TreeSpec { parents, order, root_plain })
            });
        let cross = (
            prop_oneof![3 => 1u16..600, 2 => 2000u16..9000, 1 => 20000u16..30000],
            prop_oneof![Just(0u32), Just(1u32), 2u32..1000],
            prop::collection::vec(any::<u16>(), 0..60),
            any::<bool>(),
            any::<bool>(),
        )
            .prop_map(|(n_a, order, targets, b_sorted, early_targets)| C15Case::Cross(CrossSpec { n_a, order, targets, b_sorted, early_targets, b_first: false }));
        prop_oneof![
            18 => Self::dir_strategy(tier).prop_map(C15Case::Dir),
            2 => tree,
            1 => cross,
        ]
        .boxed()
    }

    fn fixed_cases(_tier: Tier) -> Vec<C15Case> {
        // chains and bushy trees, children inserted first
        let chain = |n: usize| TreeSpec { parents: (0..n).map(|i| if i == 0 { u16::MAX } else { ((i as u32 - 1) * 65536 / (i as u32 + 1) + 1) as u16 }).collect(), order: 1, root_plain: None };
        vec![
            C15Case::Tree(chain(3)),
            C15Case::Tree(chain(6)),
            C15Case::Tree(TreeSpec { parents: vec![u16::MAX, 0, 0, 20000, 20000, 40000, 40000, 50000, 60000], order: 1, root_plain: None }),
            C15Case::Tree(TreeSpec { parents: vec![u16::MAX, 0, 0, 20000, 20000, 40000, 40000, 50000, 60000], order: 7, root_plain: None }),
            C15Case::Tree(TreeSpec { parents: vec![u16::MAX, 0, 0, 20000, 20000, 40000, 40000, 50000, 60000], order: 7, root_plain: Some(0) }),
            C15Case::Tree(TreeSpec { parents: vec![u16::MAX, u16::MAX, 0, 20000, 20000, 40000, 40000, 50000, 60000], order: 1, root_plain: Some(0) }),
            C15Case::Cross(CrossSpec { n_a: 1000, order: 1, targets: vec![0, 100, 65535, 3, 40000], b_sorted: false, early_targets: true, b_first: false }),
            C15Case::Cross(CrossSpec { n_a: 25000, order: 5, targets: vec![0, 100, 65535, 3, 40000], b_sorted: true, early_targets: false, b_first: false }),
            C15Case::Cross(CrossSpec { n_a: 25000, order: 9, targets: vec![7, 30000], b_sorted: false, early_targets: true, b_first: false }),
        ]
    }

    fn required_classes(_tier: Tier) -> Vec<&'static str> {
        Self::required_classes_()
    }

    fn run(case: &C15Case, ctx: &Ctx) -> CaseResult {
        Self::run_(case, ctx)
    }
}

impl C15 {
    fn dir_strategy(tier: Tier) -> BoxedStrategy<Case> {
        let dir = match tier {
            Tier::Quick => prop_oneof![
                60 => dir_strategy(SizeClass::Small, SortMode::Sometimes, true, false),
                12 => dir_strategy(SizeClass::Medium, SortMode::Sometimes, true, false),
                1 => dir_strategy(SizeClass::Large, SortMode::Always, true, false),
            ]
            .boxed(),
            Tier::Thorough => prop_oneof![
                60 => dir_strategy(SizeClass::Small, SortMode::Sometimes, true, false),
                12 => dir_strategy(SizeClass::Medium, SortMode::Sometimes, true, false),
                1 => dir_strategy(SizeClass::Large, SortMode::Always, true, false),
            ]
            .boxed(),
        };
        (packaging_opt(), dir)
            .prop_map(|(packaging, mut dir)| {
                // make sure a Ref column exists in the first store
                let es = &mut dir.estores[0];
                if !es.common.iter().any(|p| p.kind == PKind::Ref) {
                    if es.common.len() >= MAX_COMMON {
                        es.common.pop();
                    }
                    es.common.push(PropSpec { kind: PKind::Ref, constant: false });
                }
                Case { packaging, dir }
            })
            .boxed()
    }

    fn required_classes_() -> Vec<&'static str> {
        vec!["cross-store-reference", "cross-store:A>=2000", "tree:plain-and-bound-values-in-one-column", "tree:reference-in-sort-key", "tree:boxed-entries", "tree-order:children-first", "kind:sref", "has-refs", "ref:forward", "ref:backward", "ref:self", "ref:chain", "sorted", "referenced-entry-moved", "entries:thousands", "ref:constant-column"]
    }

    fn run_(case: &C15Case, ctx: &Ctx) -> CaseResult {
        let mut info = CaseInfo::new();
        let case = match case {
            C15Case::Tree(t) => {
                if matches!(t.root_plain, Some(k) if k > 0) {
                    // Roots carrying a plain number k > 0 sort in the middle of the entries keyed by a
                    // position: such a store need not have any order consistent with its own positions
                    // (placing the roots moves their children, which moves the roots ...). The creator
                    // then gives up loudly after 50 passes ("Cannot sort entry store"); nothing is stored
                    // altered, so the property is not concerned. Only this refusal is accepted, and only
                    // here: with self-referring roots or roots carrying 0 an order always exists.
                    let r = std::panic::catch_unwind(std::panic::AssertUnwindSafe(|| run_tree(t, ctx, &mut info)));
                    match r {
                        Ok(r) => r?,
                        Err(p) => {
                            let msg = take_panic().unwrap_or_default();
                            if msg.contains("Cannot sort entry store") {
                                info.class("tree:refused-no-consistent-order");
                                info.key = hash_str(&format!("tree|{:?}|{}", t.parents, t.order));
                                return Ok(info);
                            }
                            // put the message back for run_guarded and let the panic through
                            put_panic(msg);
                            std::panic::resume_unwind(p);
                        }
                    }
                } else {
                    run_tree(t, ctx, &mut info)?;
                }
                info.nontrivial = info.classes.iter().any(|c| c == "referenced-entry-moved");
                info.key = hash_str(&format!("tree|{:?}|{}", t.parents, t.order));
                return Ok(info);
            }
            C15Case::Cross(t) => {
                run_cross(t, ctx, &mut info)?;
                info.nontrivial = info.classes.iter().any(|c| c == "referenced-entry-moved");
                info.key = hash_str(&format!("cross|{}|{}|{:?}|{}|{}", t.n_a, t.order, t.targets, t.b_sorted, t.early_targets));
                return Ok(info);
            }
            C15Case::Dir(c) => c,
        };
        let (model, _) = run_dir_case(case, ctx, &mut info)?;
        let mut moved_ref = false;
        for sm in &model.stores {
            for (i, e) in sm.entries.iter().enumerate() {
                for (name, t) in &e.refs {
                    info.class(match t.cmp(&i) {
                        std::cmp::Ordering::Greater => "ref:forward",
                        std::cmp::Ordering::Less => "ref:backward",
                        std::cmp::Ordering::Equal => "ref:self",
                    });
                    if !sm.entries[*t].refs.is_empty() && *t != i {
                        info.class("ref:chain");
                    }
                    if sm.sorted && sm.final_pos[*t] != *t {
                        moved_ref = true;
                    }
                    if sm.schema.common.iter().any(|p| p.name == name && p.constant) && sm.entries.len() >= 2 {
                        info.class("ref:constant-column");
                    }
                }
            }
        }
        if moved_ref {
            info.class("referenced-entry-moved");
        }
        info.nontrivial = moved_ref;
        let schema_sig: Vec<String> = model.stores.iter().map(|s| format!("{:?}|{:?}|{}", s.schema.common.iter().map(|p| (p.kind, p.constant)).collect::<Vec<_>>(), s.schema.sort, s.entries.len())).collect();
        info.key = hash_str(&format!("{:?}|{:?}", info.classes, schema_sig));
        Ok(info)
    }
}
