//! C15 — references between entries resolve to the referenced entry's final position.

use super::c02::{packaging_opt, run_dir_case, Case};
use crate::dirgen::*;
use crate::engine::*;
use proptest::prelude::*;

pub struct C15;

impl Property for C15 {
    type Case = Case;
    const ID: &'static str = "C15";

    fn rule() -> String {
        "proptest-generated directory specs with Ref columns (unsigned column bound, through Vow/Bound created before any entry is added, to the position of another entry of the same store): forward, backward and self references, chains, constant Ref columns (all rows reference one entry), sorted (1-3 keys) and unsorted stores, 0..600 entries and 2000..6000 entries (parallel sort and parallel index assignment). Oracle: model final positions (independent sort of the distinct keys): the value read back for a Ref column equals the final position of its target (real reader and independent decoder), and every Bound returned by add_entry reports the final position of its entry after finalisation. Non-trivial = a sorted store in which at least one referenced entry moved from its insertion position; distinct by (graph classes, schema, size).".into()
    }

    fn cases(tier: Tier) -> u32 {
        match tier {
            Tier::Quick => 3200,
            Tier::Thorough => 40000,
        }
    }

    fn strategy(tier: Tier) -> BoxedStrategy<Case> {
        let dir = match tier {
            Tier::Quick => prop_oneof![
                60 => dir_strategy(SizeClass::Small, SortMode::Sometimes, true, false),
                12 => dir_strategy(SizeClass::Medium, SortMode::Sometimes, true, false),
                1 => dir_strategy(SizeClass::Large, SortMode::Always, true, false),
            ]
            .boxed(),
            Tier::Thorough => prop_oneof![
                60 => dir_strategy(SizeClass::Small, SortMode::Sometimes, true, false),
                12 => dir_strategy(SizeClass::Medium, SortMode::Sometimes, true, false),
                1 => dir_strategy(SizeClass::Large, SortMode::Always, true, false),
            ]
            .boxed(),
        };
        (packaging_opt(), dir)
            .prop_map(|(packaging, mut dir)| {
                // make sure a Ref column exists in the first store
                let es = &mut dir.estores[0];
                if !es.common.iter().any(|p| p.kind == PKind::Ref) {
                    if es.common.len() >= MAX_COMMON {
                        es.common.pop();
                    }
                    es.common.push(PropSpec { kind: PKind::Ref, constant: false });
                }
                Case { packaging, dir }
            })
            .boxed()
    }

    fn required_classes(_tier: Tier) -> Vec<&'static str> {
        vec!["has-refs", "ref:forward", "ref:backward", "ref:self", "ref:chain", "sorted", "referenced-entry-moved", "entries:thousands", "ref:constant-column"]
    }

    fn run(case: &Case, ctx: &Ctx) -> CaseResult {
        let mut info = CaseInfo::new();
        let (model, _) = run_dir_case(case, ctx, &mut info)?;
        let mut moved_ref = false;
        for sm in &model.stores {
            for (i, e) in sm.entries.iter().enumerate() {
                for (name, t) in &e.refs {
                    info.class(match t.cmp(&i) {
                        std::cmp::Ordering::Greater => "ref:forward",
                        std::cmp::Ordering::Less => "ref:backward",
                        std::cmp::Ordering::Equal => "ref:self",
                    });
                    if !sm.entries[*t].refs.is_empty() && *t != i {
                        info.class("ref:chain");
                    }
                    if sm.sorted && sm.final_pos[*t] != *t {
                        moved_ref = true;
                    }
                    if sm.schema.common.iter().any(|p| p.name == name && p.constant) && sm.entries.len() >= 2 {
                        info.class("ref:constant-column");
                    }
                }
            }
        }
        if moved_ref {
            info.class("referenced-entry-moved");
        }
        info.nontrivial = moved_ref;
        let schema_sig: Vec<String> = model.stores.iter().map(|s| format!("{:?}|{:?}|{}", s.schema.common.iter().map(|p| (p.kind, p.constant)).collect::<Vec<_>>(), s.schema.sort, s.entries.len())).collect();
        info.key = hash_str(&format!("{:?}|{:?}", info.classes, schema_sig));
        Ok(info)
    }
}
