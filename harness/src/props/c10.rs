//! C10 — a container reads the same however its packs are packaged.

use crate::container::*;
use crate::dirgen::*;
use crate::engine::*;
use crate::gen::*;
use crate::{ensure, fail};
use jubako as jbk;
use proptest::prelude::*;
use serde::{Deserialize, Serialize};
use std::path::{Path, PathBuf};

#[derive(Serialize, Deserialize, Clone, Debug, PartialEq, Eq)]
pub enum PrefixKind {
    Random,
    Text,
    Elf,
    /// starts with the magic "jbk" followed by a pack kind character and arbitrary bytes
    JbkLookalike,
}

#[derive(Serialize, Deserialize, Clone, Debug)]
pub struct Case {
    pub comp: Comp,
    pub contents: Vec<ContentSpec>,
    pub extra: Vec<ExtraPack>,
    pub dedup: bool,
    pub dir: DirSpec,
    pub prefix_kind: PrefixKind,
    pub prefix_len: u16,
    pub seed: u32,
}

pub struct C10;

fn permutations(n: usize, max: usize, seed: u32) -> Vec<Vec<usize>> {
    let mut all = vec![];
    let mut a: Vec<usize> = (0..n).collect();
    fn heap(k: usize, a: &mut Vec<usize>, out: &mut Vec<Vec<usize>>) {
        if k <= 1 {
            out.push(a.clone());
            return;
        }
        for i in 0..k {
            heap(k - 1, a, out);
            if k % 2 == 0 {
                a.swap(i, k - 1);
            } else {
                a.swap(0, k - 1);
            }
        }
    }
    heap(n, &mut a, &mut all);
    if all.len() <= max {
        return all;
    }
    let stride = all.len() / max;
    let start = seed as usize % stride;
    all.into_iter().skip(start).step_by(stride).take(max).collect()
}

fn open_and_verify(path: &Path, model: &ContainerModel, form: &str) -> Result<u64, Failure> {
    let c = match jbk::reader::Container::new(path) {
        Ok(c) => c,
        Err(e) => fail!(format!("form-unreadable:{}", form.split('#').next().unwrap()), "form {form}: Container::new: {e}"),
    };
    let n = verify_container(&c, model, &format!("{}:", form.split('#').next().unwrap()))?;
    // the contents once more on a freshly opened container, asked in the opposite order (the packs
    // declared last, i.e. the ones in their own files, before the main pack) and before anything else
    let c2 = match jbk::reader::Container::new(path) {
        Ok(c) => c,
        Err(e) => fail!(format!("form-unreadable:{}", form.split('#').next().unwrap()), "form {form}: Container::new (second opening): {e}"),
    };
    for (i, (a, b)) in model.contents.iter().enumerate().rev() {
        match read_content(&c2, *a) {
            ContentRead::Bytes(v) => ensure!(&v == b, format!("{}:content-bytes", form.split('#').next().unwrap()), "form {form}, contents asked last pack first: content #{i} {a:?} differs"),
            other => fail!(format!("{}:content-unreadable", form.split('#').next().unwrap()), "form {form}, contents asked last pack first: content #{i} {a:?}: {}", other.describe()),
        }
    }
    Ok(n + model.contents.len() as u64)
}

/// Half of the cases keep the prefix short (1..=8192 bytes); the other half puts the end of the
/// prefix (the start of the container) within 300 bytes below / 8 bytes above a multiple of 16 KiB
/// of the host file (16, 32, 48, 64 KiB), so that the blocks at the start of the container sit on
/// and around page and read-ahead boundaries.
fn effective_prefix_len(len: usize) -> usize {
    if len % 2 == 0 {
        16384 * (1 + (len >> 1) % 4) - 300 + (len >> 3) % 309
    } else {
        len.clamp(1, 8192)
    }
}

fn prefix_bytes(kind: &PrefixKind, len: usize, seed: u32) -> Vec<u8> {
    let len = effective_prefix_len(len);
    let mut v = match kind {
        PrefixKind::Random => content_bytes(seed, len, Entropy::High),
        PrefixKind::Text => content_bytes(seed, len, Entropy::Text),
        PrefixKind::Elf => {
            let mut v = vec![0x7f, b'E', b'L', b'F', 2, 1, 1, 0];
            v.extend(content_bytes(seed, len, Entropy::Low));
            v
        }
        PrefixKind::JbkLookalike => {
            let mut v = b"jbk".to_vec();
            v.push([b'c', b'd', b'm', b'C', b'x'][(seed % 5) as usize]);
            v.extend(content_bytes(seed, len, if seed % 2 == 0 { Entropy::High } else { Entropy::Zero }));
            v
        }
    };
    v.truncate(len.max(4));
    // the generators above repeat a short pattern: make long prefixes long
    while v.len() < len {
        let k = v.len();
        v.push((k as u32).wrapping_mul(2654435761).wrapping_add(seed) as u8 | 1);
    }
    v
}

impl Property for C10 {
    type Case = Case;
    const ID: &'static str = "C10";

    fn rule() -> String {
        "proptest-generated container specs (contents, 0..2 extra content packs in their own files, directory with 1-2 entry stores whose address columns point at the real contents) are created with BasicCreator in the three packagings; derived forms: tools::concat of the NoConcat files in every order (all permutations up to 4 files, 24 sampled of 120 for 5), concat of two concats, a OneFile container behind a prefix of 1..8192 bytes {random, text, ELF header, bytes starting with 'jbk'+kind char}, and a concat placed next to a corrupted copy of a pack at its recorded location (identity inside the file first). Oracle (metamorphic + model): every form opens, every entry of every index window and every content equal the model, check() is true. Non-trivial = at least one content and one entry and a form other than the creator's own output (all cases have such forms); distinct by (content count, entry count, extra packs, prefix class, compression). Excluded: a prefix that is itself a complete valid Jubako pack (the reader rightly finds that pack at offset 0; the property is about embedding at the end of a foreign file). Form prefix-external: the packs living in their own files (TwoFiles content, NoConcat content and directory, extra packs) are themselves embedded at the end of another file. Extra packs are placed next to the entry point, in a sub-directory, or in a sibling directory (recorded location starting with '..'). Form odd-file-name: one packaging per case is created again under a file name containing ':', ' ', '%', '#', '?', non-ASCII letters, a backslash, several dots, no extension, a leading dot or dash. Every form is opened a second time and its contents asked last pack first. Half of the prefixes end within 300 bytes below / 8 bytes above a multiple of 16 KiB (16..64 KiB). Form concat-file-then-bundle: a bundle (concat of all the files) given to concat after a file it already contains (and after it twice, and followed by another file). Form symlinked-entry-point: the entry point is a symbolic link and the packs living in their own files sit beside the link.".into()
    }

    fn cases(tier: Tier) -> u32 {
        match tier {
            Tier::Quick => 960,
            Tier::Thorough => 50000,
        }
    }

    fn strategy(_tier: Tier) -> BoxedStrategy<Case> {
        (
            comp_strategy(),
            small_content_seq_strategy(),
            prop::collection::vec(
                (comp_strategy(), small_content_seq_strategy(), prop_oneof![3 => Just(0u8), 1 => 1u8..5], prop_oneof![3 => Just(0u8), 1 => Just(1u8), 1 => Just(2u8)])
                    .prop_map(|(comp, contents, id_class, place)| ExtraPack { comp, contents, id_class, place }),
                0..=2,
            ),
            prop::bool::weighted(0.2),
            dir_strategy(SizeClass::Small, SortMode::Sometimes, true, true),
            prop_oneof![Just(PrefixKind::Random), Just(PrefixKind::Text), Just(PrefixKind::Elf), Just(PrefixKind::JbkLookalike)],
            prop_oneof![3 => 1u16..64, 3 => 64u16..8192, 1 => Just(4096u16), 1 => Just(8192u16)],
            any::<u32>(),
        )
            .prop_map(|(comp, contents, extra, dedup, dir, prefix_kind, prefix_len, seed)| Case { comp, contents, extra, dedup, dir, prefix_kind, prefix_len, seed })
            .boxed()
    }

    fn required_classes(_tier: Tier) -> Vec<&'static str> {
        vec!["form:onefile", "form:twofiles", "form:noconcat", "form:concat", "form:concat-of-concats", "form:prefix", "form:prefix+concat", "form:identity-first", "form:reconcat-after-duplicate", "form:concat-file-then-bundle", "form:prefix-external", "extra-place:1", "extra-place:2", "extra-packs:2", "prefix:JbkLookalike", "prefix:Elf"]
    }

    fn case_timeout_s(_tier: Tier) -> u64 {
        900
    }

    fn run(case: &Case, ctx: &Ctx) -> CaseResult {
        let mut info = CaseInfo::new();
        let mut evals = 0u64;
        let mk = |packaging: Packaging| ContainerSpec {
            packaging,
            comp: case.comp,
            contents: case.contents.clone(),
            extra_packs: case.extra.clone(),
            dedup: case.dedup,
            dir: case.dir.clone(),
        };
        // 1. the creator's own output in the three packagings
        let mut builds = vec![];
        for (p, name) in [(Packaging::OneFile, "onefile"), (Packaging::TwoFiles, "twofiles"), (Packaging::NoConcat, "noconcat")] {
            let d = ctx.subdir(&format!("c10-{name}"));
            let b = build(&mk(p), &d, "a.jbk", None)?;
            evals += open_and_verify(&b.main_path, &b.model, name)?;
            info.class(format!("form:{name}"));
            builds.push(b);
        }
        let model = &builds[0].model;
        // the three models agree on addresses (pure function of the spec)
        for b in &builds[1..] {
            ensure!(
                b.model.contents.iter().map(|c| c.0).collect::<Vec<_>>() == model.contents.iter().map(|c| c.0).collect::<Vec<_>>(),
                "addresses-depend-on-packaging",
                "addresses returned by the creator differ between packagings"
            );
        }
        // 2. concat of the NoConcat files in every order
        let nc = &builds[2];
        let files: Vec<PathBuf> = nc.files.iter().map(|f| nc.dir.join(f)).collect();
        let perms = permutations(files.len(), 24, case.seed);
        let cdir = ctx.subdir("c10-concat");
        for (pi, perm) in perms.iter().enumerate() {
            let order: Vec<&PathBuf> = perm.iter().map(|i| &files[*i]).collect();
            let out = cdir.join(format!("all{pi}.jbk"));
            let outu = jbk::Utf8PathBuf::from_path_buf(out.clone()).unwrap();
            if let Err(e) = jbk::tools::concat(&order, &outu) {
                fail!("concat-error", "concat {:?}: {e}", perm);
            }
            evals += open_and_verify(&out, model, &format!("concat#{perm:?}"))?;
            info.class("form:concat");
            // the bytes concat wrote follow the layout (declared sizes, locators, tail) ...
            if pi % 4 == 0 {
                let odir = ctx.subdir("c10-concat-one");
                std::fs::copy(&out, odir.join("all.jbk")).unwrap();
                if let Err(mut f) = crate::indepcheck::verify_indep_container_opts(&odir, "all.jbk", model, true, false) {
                    f.sig = format!("concat:{}", f.sig);
                    f.msg = format!("concat {perm:?}: {}", f.msg);
                    return Err(f);
                }
                // ... and the output can itself be embedded at the end of another file
                let mut data = prefix_bytes(&case.prefix_kind, case.prefix_len as usize, case.seed ^ pi as u32);
                data.extend(std::fs::read(&out).unwrap());
                let pout = odir.join("prefixed-concat.bin");
                std::fs::write(&pout, &data).unwrap();
                std::fs::remove_file(odir.join("all.jbk")).unwrap();
                evals += open_and_verify(&pout, model, "prefix+concat")?;
                info.class("form:prefix+concat");
            }
            let _ = std::fs::remove_file(&out);
        }
        // 3. concat of two concats
        if files.len() >= 2 {
            let mid = files.len() / 2;
            let (a, b) = files.split_at(mid);
            let oa = cdir.join("part-a.jbk");
            let ob = cdir.join("part-b.jbk");
            let oall = cdir.join("cc.jbk");
            for (part, out) in [(b, &ob), (a, &oa)] {
                if let Err(e) = jbk::tools::concat(part, jbk::Utf8PathBuf::from_path_buf(out.clone()).unwrap()) {
                    fail!("concat-error", "partial concat: {e}");
                }
            }
            if let Err(e) = jbk::tools::concat(&[&ob, &oa], jbk::Utf8PathBuf::from_path_buf(oall.clone()).unwrap()) {
                fail!("concat-error", "concat of concats: {e}");
            }
            // partial results removed first: nothing outside cc.jbk may be needed
            let _ = std::fs::remove_file(&oa);
            let _ = std::fs::remove_file(&ob);
            evals += open_and_verify(&oall, model, "concat-of-concats")?;
            info.class("form:concat-of-concats");
        }
        // 3b. concat applied to its own output when a pack was given twice on the way: a partial
        // concat, then the same first file again plus the missing last one, then concat of that
        if files.len() >= 2 {
            let n = files.len();
            let pa = cdir.join("dup-part.jbk");
            let p2 = cdir.join("dup-full2.jbk");
            let p3dir = ctx.subdir("c10-reconcat");
            let p3 = p3dir.join("all.jbk");
            let u = |p: &PathBuf| jbk::Utf8PathBuf::from_path_buf(p.clone()).unwrap();
            if let Err(e) = jbk::tools::concat(&files[..n - 1], u(&pa)) {
                fail!("concat-error", "partial concat: {e}");
            }
            if let Err(e) = jbk::tools::concat(&[&pa, &files[0], &files[n - 1]], u(&p2)) {
                fail!("concat-error", "concat with a pack given twice: {e}");
            }
            let _ = std::fs::remove_file(&pa);
            evals += open_and_verify(&p2, model, "concat-with-duplicate")?;
            if let Err(e) = jbk::tools::concat(&[&p2], u(&p3)) {
                fail!("concat-error", "concat of a concat output holding a pack twice: {e}");
            }
            let _ = std::fs::remove_file(&p2);
            evals += open_and_verify(&p3, model, "reconcat-after-duplicate")?;
            info.class("form:reconcat-after-duplicate");
            // a bundle (concat of all the files) given AFTER a file it already contains, and followed or
            // not by another one: the later input repeats packs of an earlier one and then brings new ones
            let bundle = cdir.join("bundle.jbk");
            if let Err(e) = jbk::tools::concat(&files, u(&bundle)) {
                fail!("concat-error", "bundle: {e}");
            }
            let entry = files.iter().find(|f| f.file_name().map_or(false, |n| n == "a.jbk")).unwrap_or(&files[0]);
            for (k, inputs) in [vec![entry, &bundle], vec![entry, &bundle, &files[n - 1]], vec![entry, entry, &bundle], vec![&files[n - 1], &bundle]].into_iter().enumerate() {
                let out = p3dir.join(format!("with-bundle{k}.jbk"));
                if let Err(e) = jbk::tools::concat(&inputs, u(&out)) {
                    fail!("concat-error", "concat of a file and a bundle that contains it ({k}): {e}");
                }
                evals += open_and_verify(&out, model, "concat-file-then-bundle")?;
                let _ = std::fs::remove_file(&out);
            }
            let _ = std::fs::remove_file(&bundle);
            info.class("form:concat-file-then-bundle");
        }
        // 4. one-file container behind a prefix. Extra packs stay in their own files: copy them along.
        {
            let of = &builds[0];
            let pdir = ctx.subdir("c10-prefix");
            let prefix = prefix_bytes(&case.prefix_kind, case.prefix_len as usize, case.seed);
            let mut data = prefix.clone();
            data.extend(std::fs::read(&of.main_path).unwrap());
            let out = pdir.join("prefixed.bin");
            std::fs::write(&out, &data).unwrap();
            for f in &of.files {
                if f.contains("extra") {
                    copy_rel(&of.dir, &pdir, f);
                }
            }
            info.class("form:prefix");
            info.class(format!("prefix:{:?}", case.prefix_kind));
            info.class(if prefix.len() >= 4096 { "prefix>=4KiB" } else { "prefix<4KiB" });
            evals += open_and_verify(&out, model, "prefix")?;
        }
        // 5. identity inside the file first: a concat next to a damaged copy at the recorded location
        {
            let tf = &builds[1];
            let idir = ctx.subdir("c10-identity");
            let mut inputs: Vec<PathBuf> = vec![tf.dir.join("a.jbk"), tf.dir.join("a.jbkc")];
            for f in &tf.files {
                if f.contains("extra") {
                    inputs.push(tf.dir.join(f));
                }
            }
            let out = idir.join("a.jbk");
            if let Err(e) = jbk::tools::concat(&inputs, jbk::Utf8PathBuf::from_path_buf(out.clone()).unwrap()) {
                fail!("concat-error", "identity-first concat: {e}");
            }
            // at the recorded location of the main content pack: the same file with its payload zeroed
            let mut bad = std::fs::read(tf.dir.join("a.jbkc")).unwrap();
            let n = bad.len();
            for b in &mut bad[n / 3..2 * n / 3] {
                *b = 0;
            }
            std::fs::write(idir.join("a.jbkc"), bad).unwrap();
            evals += open_and_verify(&out, model, "identity-first")?;
            info.class("form:identity-first");
        }
        // 6. the packs that live in their own files are themselves embedded at the end of another
        // file (the located file is opened like any other: header first, else the mirrored tail)
        for (bi, name) in [(1usize, "twofiles"), (2usize, "noconcat")] {
            let b = &builds[bi];
            let edir = ctx.subdir(&format!("c10-prefix-external-{name}"));
            for (k, f) in b.files.iter().enumerate() {
                if f == "a.jbk" && (case.seed / 5) % 2 == 0 {
                    copy_rel(&b.dir, &edir, f);
                    continue;
                }
                if f == "a.jbk" {
                    // every second case: the entry point too (TwoFiles: a container holding directory
                    // and manifest; NoConcat: a bare manifest pack) sits at the end of a foreign file
                    info.class("form:prefix-entry-point-of-several-files");
                }
                let mut data = prefix_bytes(&case.prefix_kind, case.prefix_len as usize, case.seed ^ (k as u32 * 77 + 5));
                data.extend(std::fs::read(b.dir.join(f)).unwrap());
                let dst = edir.join(f);
                if let Some(p) = dst.parent() {
                    std::fs::create_dir_all(p).unwrap();
                }
                // a `..` placement names the same file from every sibling directory: leave that one as it is
                if std::fs::canonicalize(b.dir.join(f)).ok() != std::fs::canonicalize(&dst).ok() {
                    std::fs::write(&dst, &data).unwrap();
                }
            }
            evals += open_and_verify(&edir.join("a.jbk"), model, &format!("prefix-external-{name}"))?;
            info.class("form:prefix-external");
        }
        // 6b. a link farm: the entry point is a symbolic link, the packs living in their own files
        // sit beside the LINK (the recorded locations are relative to where the container is opened)
        for (bi, name) in [(1usize, "twofiles"), (2usize, "noconcat"), (0usize, "onefile")] {
            if (case.seed as usize / 11) % 3 != bi {
                continue;
            }
            let b = &builds[bi];
            let store = ctx.subdir("c10-link-store");
            let links = ctx.subdir("c10-link-farm");
            std::fs::copy(b.dir.join("a.jbk"), store.join("a.jbk")).unwrap();
            for f in &b.files {
                if f != "a.jbk" {
                    copy_rel(&b.dir, &links, f);
                }
            }
            if std::os::unix::fs::symlink(store.join("a.jbk"), links.join("a.jbk")).is_ok() {
                evals += open_and_verify(&links.join("a.jbk"), model, &format!("symlinked-entry-point-{name}"))?;
                info.class("form:symlinked-entry-point");
            }
        }
        // 7. the same container under a file name that is not plain ASCII letters: the recorded
        // locations of the packs living in their own files are derived from it (colon, space, '%',
        // '#', '?', non-ASCII letters, several dots, no extension, leading dot or dash)
        {
            const NAMES: [&str; 14] = [
                "snapshot-2024-05-01T10:30.jbk",
                "with space & amp.jbk",
                "d\u{ed}a-\u{f1}and\u{fa}-\u{65e5}\u{672c}.jbk",
                "100%25done%2Fx.jbk",
                "q?x=1#frag.jbk",
                "file:rel.jbk",
                "noext",
                "two.dots.name.jbk",
                ".hidden.jbk",
                "-leading-dash.jbk",
                "trailing.dot..jbk",
                "back\\slash.jbk",
                "http://host/x.jbk",
                "tab\tand'quote\".jbk",
            ];
            let name = NAMES[(case.seed as usize / 7) % NAMES.len()].replace('/', "\u{2215}");
            let (p, pname) = [(Packaging::TwoFiles, "twofiles"), (Packaging::NoConcat, "noconcat"), (Packaging::OneFile, "onefile")][(case.seed as usize / 3) % 3];
            let d = ctx.subdir("c10-odd-name");
            let b = build(&mk(p), &d, &name, None)?;
            evals += open_and_verify(&b.main_path, &b.model, &format!("odd-name-{pname}"))?;
            info.class("form:odd-file-name");
        }
        for e in &case.extra {
            info.class(format!("extra-place:{}", e.place % 3));
        }
        info.class(format!("extra-packs:{}", case.extra.len()));
        info.class(format!("comp:{}", case.comp.name()));
        let nentries: usize = model.dir.stores.iter().map(|s| s.entries.len()).sum();
        info.evals = evals.max(1);
        info.nontrivial = !model.contents.is_empty() && nentries > 0;
        info.key = hash_str(&format!(
            "{}|{}|{}|{:?}|{}|{:?}",
            model.contents.len(),
            nentries,
            case.extra.len(),
            case.prefix_kind,
            effective_prefix_len(case.prefix_len as usize) >= 4096,
            case.comp
        ));
        Ok(info)
    }
}
