//! jbkv-reader: the reader child of the fault enumerator (DESIGN 2.4).
//! No catch_unwind, default panic behaviour: a panic / abort / signal kills this process and
//! the parent attributes the death to the job in flight.
//! Protocol: one JSON `Job` per stdin line -> one line `OK <FDump json>` on stdout.

use jbkv::fdump::{run_job, Job};
use std::io::{BufRead, Write};
use std::sync::atomic::{AtomicU64, Ordering};

static STALL: AtomicU64 = AtomicU64::new(0);
static LAST: AtomicU64 = AtomicU64::new(u64::MAX);

fn main() {
    // sound non-termination evidence (DESIGN 2.6): the decode loop publishes the same
    // length 1000 times in a row while data is still expected => it can never advance.
    jubako::verif::set_hook(Box::new(|site, a, b| {
        if site == "dec.pre_publish" {
            if a < b && LAST.swap(a, Ordering::Relaxed) == a {
                if STALL.fetch_add(1, Ordering::Relaxed) > 1000 {
                    println!("NOPROGRESS decoded={a} total={b}");
                    let _ = std::io::stdout().flush();
                    std::process::exit(3);
                }
            } else {
                STALL.store(0, Ordering::Relaxed);
            }
        }
    }));
    let stdin = std::io::stdin();
    let stdout = std::io::stdout();
    for line in stdin.lock().lines() {
        let Ok(line) = line else { break };
        if line.trim().is_empty() {
            continue;
        }
        let job: Job = match serde_json::from_str(&line) {
            Ok(j) => j,
            Err(e) => {
                println!("BADJOB {e}");
                continue;
            }
        };
        STALL.store(0, Ordering::Relaxed);
        LAST.store(u64::MAX, Ordering::Relaxed);
        let d = run_job(&job);
        let mut out = stdout.lock();
        let _ = writeln!(out, "OK {}", serde_json::to_string(&d).unwrap());
        let _ = out.flush();
    }
}
