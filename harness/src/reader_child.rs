fn main() {}
