#!/bin/sh
# usage: confirm3_all.sh ID... : confirm both variants of each round-8 seed, retrying a failing suite run once
for ID in "$@"; do for V in a b; do
  r=$(/verif/confirm_seed8.sh $ID $V)
  case "$r" in *suite_with_change=0*) ;; *) r=$(/verif/confirm_seed8.sh $ID $V);; esac
  echo "$r" | tee -a /tmp/seed8-out/$ID/confirm.txt
done; done
