#!/bin/sh
# Re-run every seeded change against the quick tier of the check recorded as catching it.
# Prints one line per seed; "CAUGHT" needs exit 1 with a VIOLATION line.
for d in /verif/seeded/*/; do
  name=$(basename $d)
  id=$(python3 -c "
import json,re,sys
m=json.load(open('$d/meta.json'))['detected_by']
r=re.findall(r'(C\d\d) quick:', m)
print(r[0] if r else ('THOROUGH' if re.search(r'C\d\d thorough:', m) else '$name'[:3]))")
  [ "$id" = "THOROUGH" ] && { echo "$name: caught by a thorough tier only, not replayed here"; continue; }
  git -C /repo apply $d/patch.diff || { echo "$name: PATCH-DOES-NOT-APPLY"; continue; }
  /verif/check $id quick > /tmp/seedrun-$name.out 2>&1; rc=$?
  git -C /repo checkout -- .
  if [ $rc -eq 1 ] && grep -q "^VIOLATION property=$id" /tmp/seedrun-$name.out; then
    echo "$name: CAUGHT by $id quick ($(grep -m1 -o 'sig=[^ ]*' /tmp/seedrun-$name.out))"
  else
    echo "$name: NOT-CAUGHT by $id quick (exit $rc)"
  fi
done
