#!/bin/sh
# MANIFEST.setup_cmd: build the framework from files on disk only (offline).
set -e
export CARGO_NET_OFFLINE=true
mkdir -p /verif/target /verif/evidence /verif/replays
cd /verif/harness
cargo build --release --offline
cargo build --profile dbg --bin jbkv-reader --offline
if [ -f /verif/shim/faultfs.c ]; then
    cc -O2 -shared -fPIC -o /verif/target/faultfs.so /verif/shim/faultfs.c -ldl -lpthread
fi
echo setup done
