#!/bin/sh
# usage: runseed8.sh <ID> <a|b> <CHECK>...  : round-8 seed against the named quick checks
ID="$1"; V="$2"; shift; shift
git -C /repo apply /tmp/seed8-out/$ID/$V.diff || { echo "$ID-$V PATCH-DOES-NOT-APPLY"; exit 3; }
for C in "$@"; do
  /verif/check "$C" quick > /tmp/s8-$ID-$V-$C.out 2>&1; rc=$?
  echo "== $ID-$V vs $C exit=$rc: $(grep -m1 -E 'VIOLATION|OK property|INCONCLUSIVE' /tmp/s8-$ID-$V-$C.out | cut -c1-150)"
  grep -m2 "sig=" /tmp/s8-$ID-$V-$C.out | cut -c1-240
done
git -C /repo checkout -- .
