# Design-phase spot check of the on-disk layout (pinned tree output), independent of jubako.
# usage: python3 dec_probe.py one_file_container.jbk   (compression none or lzma)
import struct, sys, lzma
def crc32c_be(data):
    crc=0xFFFFFFFF
    for b in data:
        crc ^= b<<24
        for _ in range(8):
            crc = ((crc<<1) ^ 0x1EDC6F41) & 0xFFFFFFFF if crc & 0x80000000 else (crc<<1)&0xFFFFFFFF
    return crc
def block(d, off, size, what):
    body=d[off:off+size]; crc=struct.unpack('>I', d[off+size:off+size+4])[0]
    assert crc32c_be(body)==crc, (what, off, size)
    return body
def pack_header(d, off):
    h=block(d, off, 60, 'packheader')
    size,cip=struct.unpack('<QQ', h[32:48])
    assert h[27:32]==b'\0'*5 and h[48:60]==b'\0'*12 and (h[8],h[9])==(0,2) and h[26]==0
    return h[0:4], h[4:8], h[10:26], size, cip
def sized(v): return v>>16, v&0xFFFF
d=open(sys.argv[1],'rb').read()
magic,vendor,uuid,size,cip=pack_header(d,0)
print(magic,'declared',size,'actual',len(d),'(F9: 5 bytes short)')
h=block(d,64,60,'containerheader'); pos,cnt=struct.unpack('<QH',h[:10])
assert block(d,cip,1,'check none')==b'\0' and d[cip+5:cip+69][::-1]==d[0:64]
for i in range(cnt):
    l=block(d,pos+i*36,32,'locator'); psize,ppos=struct.unpack('<QQ',l[16:32])
    m,v,u,s,c=pack_header(d,ppos); assert s==psize and u==l[:16]
    cb=block(d,ppos+c,33,'checkblock'); assert cb[0]==1 and s==c+37+64
    assert d[ppos+s-64:ppos+s][::-1]==d[ppos:ppos+64]
    print(' pack',m,'at',ppos,'size',s)
    if m==b'jbkc':
        h=block(d,ppos+64,60,'cph'); cinfo,cptr,ccount,clcount=struct.unpack('<QQII',h[:24])
        ptrs=block(d,ppos+cptr,clcount*8,'ptrs'); infos=block(d,ppos+cinfo,ccount*4,'infos')
        for k in range(clcount):
            toff,tsize=sized(struct.unpack('<Q',ptrs[k*8:k*8+8])[0])
            t=block(d,ppos+toff,tsize,'clustertail'); comp,osz,bc=t[0],t[1],struct.unpack('<H',t[2:4])[0]
            rd=lambda o:int.from_bytes(t[o:o+osz],'little')
            raw,data=rd(4),rd(4+osz); offs=[0]+[rd(4+2*osz+j*osz) for j in range(bc-1)]+[data]
            payload=d[ppos+toff-raw:ppos+toff]
            if comp==2: payload=lzma.LZMADecompressor(format=lzma.FORMAT_ALONE).decompress(payload)
            print('  cluster',k,'comp',comp,'osz',osz,'blobs',bc,'raw',raw,'data',data,[payload[offs[j]:offs[j+1]][:10] for j in range(bc)])
        for k in range(ccount):
            v=struct.unpack('<I',infos[k*4:k*4+4])[0]; print('  content',k,'cluster',v>>12,'blob',v&0xFFF)
    if m==b'jbkd':
        h=block(d,ppos+64,60,'dph'); ip,ep,vp,ic,ec,vc=struct.unpack('<QQQIIB',h[:33])
        ips=block(d,ppos+ip,ic*8,'iptrs'); eps=block(d,ppos+ep,ec*8,'eptrs'); vps=block(d,ppos+vp,vc*8,'vptrs')
        o,sz=sized(struct.unpack('<Q',ips[:8])[0]); print('  index hdr',block(d,ppos+o,sz,'index'))
        o,sz=sized(struct.unpack('<Q',eps[:8])[0]); et=block(d,ppos+o,sz,'estail')
        ecount=struct.unpack('<I',et[1:5])[0]; esize=struct.unpack('<H',et[6:8])[0]
        print('  estore kind',et[0],'count',ecount,'flag',et[5],'entrysize',esize,'variants',et[8],'keys',et[9],'layout',et[10:].hex())
        edata=block(d,ppos+o-ecount*esize-4,ecount*esize,'entries'); print('  entries',[edata[i*esize:(i+1)*esize].hex() for i in range(ecount)])
        if vc:
            o,sz=sized(struct.unpack('<Q',vps[:8])[0]); vt=block(d,ppos+o,sz,'vstail'); print('  vstore tail',vt.hex())
    if m==b'jbkm':
        h=block(d,ppos+64,60,'mph'); pc=struct.unpack('<H',h[:2])[0]; vso,vss=sized(struct.unpack('<Q',h[2:10])[0])
        print('  manifest vstore tail',block(d,ppos+vso,vss,'mvs').hex())
        for k in range(pc):
            pi=block(d,ppos+c-(pc-k)*256,252,'packinfo')
            print('  packinfo size',struct.unpack('<Q',pi[16:24])[0],'checkinfo',sized(struct.unpack('<Q',pi[24:32])[0]),'id',struct.unpack('<H',pi[32:34])[0],'kind',chr(pi[34]),'loc',pi[39:39+pi[38]])
