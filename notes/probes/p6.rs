use jubako as jbk;
use jbk::creator::schema;
use std::collections::HashMap;
use std::io::Read;
use std::sync::Arc;
type ET = jbk::creator::BasicEntry<&'static str, &'static str>;
struct Custom { es: Box<jbk::creator::EntryStore<&'static str, &'static str, ET>>, n: u32 }
impl jbk::creator::EntryStoreTrait for Custom {
    fn finalize(self: Box<Self>, dp: &mut jbk::creator::DirectoryPackCreator) {
        let id = dp.add_entry_store(self.es);
        dp.create_index("idx", Default::default(), 0.into(), id, self.n.into(), jbk::EntryIdx::from(0).into());
    }
}
fn make(out: &jbk::Utf8Path, mode: jbk::creator::ConcatMode, extra: Option<&jbk::Utf8Path>) -> Vec<(jbk::ContentAddress, Vec<u8>)> {
    let mut creator = jbk::creator::BasicCreator::new(out, mode, jbk::VendorId::new([1,2,3,4]), jbk::creator::Compression::zstd(), Arc::new(())).unwrap();
    let sch = schema::Schema::new(schema::CommonProperties::new(vec![schema::Property::new_content_address("c")]), vec![], None);
    let mut es = Box::new(jbk::creator::EntryStore::new(sch, None));
    let mut res = vec![];
    for i in 0..3u8 { let data = vec![i + 65; 10 + i as usize]; let a = creator.add_content(Box::new(std::io::Cursor::new(data.clone())), Default::default()).unwrap(); res.push((a, data)); }
    let mut extras = vec![];
    if let Some(p) = extra {
        let f: Box<dyn jbk::creator::PackRecipient> = jbk::creator::AtomicOutFile::new(p).unwrap();
        let mut ec = jbk::creator::ContentPackCreator::new_from_output(f, jbk::PackId::from(2), jbk::VendorId::new([1,2,3,4]), Default::default(), jbk::creator::Compression::None).unwrap();
        for i in 0..2u8 { let data = vec![i + 97; 20]; let a = ec.add_content(Box::new(std::io::Cursor::new(data.clone())), Default::default()).unwrap(); res.push((a, data)); }
        extras.push(ec);
    }
    for (a, _) in &res { let e = ET::new_from_schema(&es.schema, None, HashMap::from([("c", jbk::Value::Content(*a))])); es.add_entry(e); }
    let n = res.len() as u32;
    creator.finalize(Box::new(Custom { es, n }), extras).unwrap();
    res
}
fn read(path: &std::path::Path, exp: &[(jbk::ContentAddress, Vec<u8>)]) -> String {
    let c = match jbk::reader::Container::new(path) { Ok(c) => c, Err(e) => return format!("open error {e}") };
    let mut out = String::new();
    for (a, d) in exp {
        match c.get_bytes(*a) {
            Ok(Some(jbk::reader::MayMissPack::FOUND(Some(r)))) => { let mut v = vec![]; r.stream().read_to_end(&mut v).unwrap(); out += if &v == d { "ok " } else { "WRONG " }; }
            Ok(Some(jbk::reader::MayMissPack::MISSING(pi))) => out += &format!("missing({},{}) ", pi.pack_id.into_u16(), pi.pack_location),
            Ok(Some(jbk::reader::MayMissPack::FOUND(None))) => out += "nocontent ",
            Ok(None) => out += "nopack ",
            Err(e) => out += &format!("err({}) ", e.to_string().chars().take(40).collect::<String>()),
        }
    }
    out += &format!("check={:?}", c.check().map_err(|e| e.to_string().chars().take(60).collect::<String>()));
    out
}
fn main() {
    let dir = tempfile::tempdir().unwrap();
    let d = jbk::Utf8PathBuf::from_path_buf(dir.path().to_path_buf()).unwrap();
    for (name, mode) in [("two", jbk::creator::ConcatMode::TwoFiles), ("no", jbk::creator::ConcatMode::NoConcat), ("one", jbk::creator::ConcatMode::OneFile)] {
        let sub = d.join(name); std::fs::create_dir_all(&sub).unwrap();
        let out = sub.join("a.jbk"); let extra = sub.join("extra.jbkc");
        let exp = make(&out, mode, Some(&extra));
        println!("{name}: files {:?}", std::fs::read_dir(&sub).unwrap().map(|e| e.unwrap().file_name()).collect::<Vec<_>>());
        println!("  all present: {}", read(out.as_std_path(), &exp));
        // set_location history on extra pack
        let pack = jbk::tools::open_pack(&out).unwrap();
        let m = jbk::reader::ManifestPack::new(pack.get_manifest_pack_reader().unwrap().unwrap()).unwrap();
        let infos: Vec<_> = m.get_pack_infos().iter().map(|p| (p.uuid, p.pack_id.into_u16(), p.pack_location.to_string())).collect();
        println!("  infos {:?}", infos.iter().map(|(_, i, l)| (i, l)).collect::<Vec<_>>());
        drop(m); drop(pack);
        let extra_uuid = infos.iter().find(|p| p.1 == 2).unwrap().0;
        let r = jbk::tools::set_location(&out, extra_uuid, "élsewhere/ñ.jbkc".into());
        println!("  set_location -> {:?}", r.map_err(|e| e.to_string()));
        println!("  after relocate: {}", read(out.as_std_path(), &exp));
        let r = jbk::tools::set_location(&out, extra_uuid, "extra.jbkc".into());
        println!("  set_location back -> {:?}; {}", r.map_err(|e| e.to_string()), read(out.as_std_path(), &exp));
        let r = jbk::tools::set_location(&out, uuid::Uuid::from_u128(5), "x".into());
        println!("  set_location unknown -> {:?}", r.map_err(|e| e.to_string()));
        // remove extra
        std::fs::remove_file(&extra).unwrap();
        println!("  extra removed: {}", read(out.as_std_path(), &exp));
        std::fs::create_dir(&extra).unwrap();
        println!("  extra is dir: {}", read(out.as_std_path(), &exp));
        std::fs::remove_dir(&extra).unwrap();
        // replace by different valid pack: copy other sub's extra later; here use main content file if exists
        let mainc = sub.join("a.jbkc");
        if mainc.exists() { std::fs::copy(&mainc, &extra).unwrap(); println!("  extra replaced by main content container: {}", read(out.as_std_path(), &exp)); std::fs::remove_file(&extra).unwrap();
            std::fs::remove_file(&mainc).unwrap(); println!("  both removed: {}", read(out.as_std_path(), &exp)); }
    }
    // concat
    let sub = d.join("cc"); std::fs::create_dir_all(&sub).unwrap();
    let out = sub.join("a.jbk"); let extra = sub.join("extra.jbkc");
    let exp = make(&out, jbk::creator::ConcatMode::NoConcat, Some(&extra));
    let files: Vec<std::path::PathBuf> = std::fs::read_dir(&sub).unwrap().map(|e| e.unwrap().path()).collect();
    for rot in 0..files.len() {
        let mut order = files.clone(); order.rotate_left(rot);
        let sub2 = d.join(format!("cc_out{rot}")); std::fs::create_dir_all(&sub2).unwrap();
        let o = sub2.join("all.jbk");
        let r = jbk::tools::concat(&order, &o);
        println!("concat rot{rot} -> {:?}; read: {}", r.map_err(|e| e.to_string()), read(o.as_std_path(), &exp));
    }
}
