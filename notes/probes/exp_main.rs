use jbk::creator::schema;
use jbk::reader::{EntryTrait, Range};
use jubako as jbk;
use std::collections::HashMap;
use std::io::Read;
use std::sync::Arc;

type PN = &'static str;
type VN = &'static str;
type EntryType = jbk::creator::BasicEntry<PN, VN>;
type EStore = jbk::creator::EntryStore<PN, VN, EntryType>;

struct Custom {
    value_stores: Vec<jbk::creator::StoreHandle>,
    entry_store: Box<EStore>,
    count: u32,
}

impl jbk::creator::EntryStoreTrait for Custom {
    fn finalize(self: Box<Self>, dp: &mut jbk::creator::DirectoryPackCreator) {
        for vs in self.value_stores {
            dp.add_value_store(vs);
        }
        let id = dp.add_entry_store(self.entry_store);
        dp.create_index(
            "idx",
            Default::default(),
            0.into(),
            id,
            self.count.into(),
            jbk::EntryIdx::from(0).into(),
        );
    }
}

fn exp_signed(dir: &std::path::Path) {
    println!("== signed ints");
    let out = dir.join("signed.jbk");
    let out = jbk::Utf8PathBuf::from_path_buf(out).unwrap();
    let mut creator = jbk::creator::BasicCreator::new(
        &out,
        jbk::creator::ConcatMode::OneFile,
        jbk::VendorId::new([1, 2, 3, 4]),
        jbk::creator::Compression::None,
        Arc::new(()),
    )
    .unwrap();
    let schema = schema::Schema::new(
        schema::CommonProperties::new(vec![schema::Property::new_sint("s"), schema::Property::new_uint("u")]),
        vec![],
        None,
    );
    let mut es = Box::new(jbk::creator::EntryStore::new(schema, None));
    let vals: Vec<i64> = vec![-1000, 200, -1, 127, 128, -128, -129, 0];
    for (i, v) in vals.iter().enumerate() {
        let e = EntryType::new_from_schema(
            &es.schema,
            None,
            HashMap::from([("s", jbk::Value::Signed(*v)), ("u", jbk::Value::Unsigned(i as u64))]),
        );
        es.add_entry(e);
    }
    let _ = creator
        .add_content(Box::new(std::io::Cursor::new(b"x".to_vec())), Default::default())
        .unwrap();
    creator
        .finalize(
            Box::new(Custom {
                value_stores: vec![],
                entry_store: es,
                count: vals.len() as u32,
            }),
            vec![],
        )
        .unwrap();
    let c = jbk::reader::Container::new(&out).unwrap();
    let index = c.get_index_for_name("idx").unwrap().unwrap();
    let builder = jbk::reader::builder::AnyBuilder::new(
        index.get_store(c.get_entry_storage()).unwrap(),
        c.get_value_storage().as_ref(),
    )
    .unwrap();
    for (i, v) in vals.iter().enumerate() {
        let e = index.get_entry(&builder, (i as u32).into()).unwrap().unwrap();
        let got = e.get_value("s").unwrap().unwrap().as_signed();
        println!("  wrote {v} read {got} {}", if got == *v { "" } else { "MISMATCH" });
    }
    println!("  check = {:?}", c.check());
}

fn make_simple(
    out: &jbk::Utf8Path,
    mode: jbk::creator::ConcatMode,
    comp: jbk::creator::Compression,
    contents: &[Vec<u8>],
    hint: fn() -> jbk::creator::CompHint,
) -> Vec<jbk::ContentAddress> {
    let mut creator =
        jbk::creator::BasicCreator::new(out, mode, jbk::VendorId::new([1, 2, 3, 4]), comp, Arc::new(())).unwrap();
    let vs = jbk::creator::ValueStore::new_plain(None);
    let schema = schema::Schema::new(
        schema::CommonProperties::new(vec![
            schema::Property::new_array(2, vs.clone(), "name"),
            schema::Property::new_content_address("c"),
        ]),
        vec![],
        None,
    );
    let mut es = Box::new(jbk::creator::EntryStore::new(schema, None));
    let mut addrs = vec![];
    for (i, c) in contents.iter().enumerate() {
        let a = creator
            .add_content(Box::new(std::io::Cursor::new(c.clone())), hint())
            .unwrap();
        addrs.push(a);
        let e = EntryType::new_from_schema(
            &es.schema,
            None,
            HashMap::from([
                ("name", jbk::Value::Array(format!("entry{i}").into_bytes().into())),
                ("c", jbk::Value::Content(a)),
            ]),
        );
        es.add_entry(e);
    }
    creator
        .finalize(
            Box::new(Custom {
                value_stores: vec![vs],
                entry_store: es,
                count: contents.len() as u32,
            }),
            vec![],
        )
        .unwrap();
    addrs
}

fn read_all(path: &std::path::Path, addrs: &[jbk::ContentAddress]) -> Result<Vec<Vec<u8>>, String> {
    let c = jbk::reader::Container::new(path).map_err(|e| format!("open: {e}"))?;
    let mut res = vec![];
    for a in addrs {
        let b = c.get_bytes(*a).map_err(|e| format!("get_bytes: {e}"))?;
        match b {
            None => return Err("None pack".into()),
            Some(jbk::reader::MayMissPack::MISSING(pi)) => return Err(format!("missing {:?}", pi.pack_location)),
            Some(jbk::reader::MayMissPack::FOUND(None)) => return Err("no such content".into()),
            Some(jbk::reader::MayMissPack::FOUND(Some(r))) => {
                let mut v = vec![];
                r.stream().read_to_end(&mut v).map_err(|e| format!("read: {e}"))?;
                res.push(v);
            }
        }
    }
    println!("    check = {:?}", c.check().map_err(|e| e.to_string()));
    Ok(res)
}

fn exp_packaging(dir: &std::path::Path) {
    println!("== packagings");
    let contents: Vec<Vec<u8>> = vec![b"hello".to_vec(), vec![7u8; 5000], b"".to_vec(), b"world".to_vec()];
    for (name, mode) in [
        ("one", jbk::creator::ConcatMode::OneFile),
        ("two", jbk::creator::ConcatMode::TwoFiles),
        ("no", jbk::creator::ConcatMode::NoConcat),
    ] {
        let d = dir.join(name);
        std::fs::create_dir_all(&d).unwrap();
        let out = jbk::Utf8PathBuf::from_path_buf(d.join("a.jbk")).unwrap();
        let addrs = make_simple(&out, mode, jbk::creator::Compression::zstd(), &contents, Default::default);
        let files: Vec<_> = std::fs::read_dir(&d).unwrap().map(|e| e.unwrap().file_name()).collect();
        println!("  {name}: files {:?}", files);
        match read_all(out.as_std_path(), &addrs) {
            Ok(v) => println!("  {name}: read ok, equal = {}", v == contents),
            Err(e) => println!("  {name}: READ FAILED: {e}"),
        }
    }
}

fn exp_set_location(dir: &std::path::Path) {
    println!("== set_location");
    let d = dir.join("loc");
    std::fs::create_dir_all(&d).unwrap();
    let out = jbk::Utf8PathBuf::from_path_buf(d.join("a.jbk")).unwrap();
    let contents: Vec<Vec<u8>> = vec![b"hello".to_vec()];
    let _ = make_simple(
        &out,
        jbk::creator::ConcatMode::OneFile,
        jbk::creator::Compression::None,
        &contents,
        Default::default,
    );
    let pack = jbk::tools::open_pack(&out).unwrap();
    let mr = pack.get_manifest_pack_reader().unwrap().unwrap();
    let m = jbk::reader::ManifestPack::new(mr).unwrap();
    let uuid = m.get_pack_infos()[0].uuid;
    println!("  before: loc={:?} check={:?}", m.get_pack_infos()[0].pack_location, jbk::Pack::check(&m));
    let r = jbk::tools::set_location(&out, uuid, "new/location.jbkc".into());
    println!("  set_location => {:?}", r.map_err(|e| e.to_string()));
}

fn exp_bytestream_from(dir: &std::path::Path) {
    println!("== From<ByteRegion> for ByteStream");
    let d = dir.join("bs");
    std::fs::create_dir_all(&d).unwrap();
    let out = jbk::Utf8PathBuf::from_path_buf(d.join("a.jbk")).unwrap();
    let contents: Vec<Vec<u8>> = vec![b"hello".to_vec(), b"world!".to_vec()];
    let addrs = make_simple(
        &out,
        jbk::creator::ConcatMode::OneFile,
        jbk::creator::Compression::None,
        &contents,
        Default::default,
    );
    let c = jbk::reader::Container::new(&out).unwrap();
    let r = c.get_bytes(addrs[1]).unwrap().unwrap().unwrap().unwrap();
    let res = std::panic::catch_unwind(std::panic::AssertUnwindSafe(|| {
        let mut s: jbk::reader::ByteStream = r.clone().into();
        let mut v = vec![];
        let sz = s.size();
        let left = s.size_left();
        s.read_to_end(&mut v).unwrap();
        (sz, left, v)
    }));
    println!("  via From: {:?}", res.map_err(|_| "panic"));
    let mut v = vec![];
    r.stream().read_to_end(&mut v).unwrap();
    println!("  via stream(): {:?}", String::from_utf8_lossy(&v));
}

fn exp_variant_trailing_default(dir: &std::path::Path) {
    println!("== variant with trailing constant column");
    let d = dir.join("var");
    std::fs::create_dir_all(&d).unwrap();
    let out = jbk::Utf8PathBuf::from_path_buf(d.join("a.jbk")).unwrap();
    let mut creator = jbk::creator::BasicCreator::new(
        &out,
        jbk::creator::ConcatMode::OneFile,
        jbk::VendorId::new([1, 2, 3, 4]),
        jbk::creator::Compression::None,
        Arc::new(()),
    )
    .unwrap();
    let schema = schema::Schema::new(
        schema::CommonProperties::new(vec![schema::Property::new_uint("k")]),
        vec![
            (
                "A",
                schema::VariantProperties::new(vec![schema::Property::new_uint("a1"), schema::Property::new_uint("a2")]),
            ),
            ("B", schema::VariantProperties::new(vec![schema::Property::new_uint("b1")])),
        ],
        None,
    );
    let mut es = Box::new(jbk::creator::EntryStore::new(schema, None));
    for i in 0..4u64 {
        let e = if i % 2 == 0 {
            EntryType::new_from_schema(
                &es.schema,
                Some("A"),
                HashMap::from([
                    ("k", jbk::Value::Unsigned(i)),
                    ("a1", jbk::Value::Unsigned(i * 10)),
                    ("a2", jbk::Value::Unsigned(77)),
                ]),
            )
        } else {
            EntryType::new_from_schema(
                &es.schema,
                Some("B"),
                HashMap::from([("k", jbk::Value::Unsigned(i)), ("b1", jbk::Value::Unsigned(i))]),
            )
        };
        es.add_entry(e);
    }
    creator
        .finalize(
            Box::new(Custom {
                value_stores: vec![],
                entry_store: es,
                count: 4,
            }),
            vec![],
        )
        .unwrap();
    let c = jbk::reader::Container::new(&out).unwrap();
    let index = c.get_index_for_name("idx").unwrap().unwrap();
    let store = index.get_store(c.get_entry_storage());
    match store {
        Err(e) => println!("  get_store FAILED: {e}"),
        Ok(store) => {
            let builder = jbk::reader::builder::AnyBuilder::new(store, c.get_value_storage().as_ref()).unwrap();
            for i in 0..4u32 {
                let e = index.get_entry(&builder, i.into()).unwrap().unwrap();
                println!(
                    "  entry {i}: variant {:?} k={:?} a1={:?} a2={:?} b1={:?}",
                    e.get_variant_id().unwrap(),
                    e.get_value("k").unwrap().map(|v| v.as_unsigned()),
                    e.get_value("a1").unwrap().map(|v| v.as_unsigned()),
                    e.get_value("a2").unwrap().map(|v| v.as_unsigned()),
                    e.get_value("b1").unwrap().map(|v| v.as_unsigned()),
                );
            }
        }
    }
}

fn dump(path: &std::path::Path) -> Result<String, String> {
    let c = jbk::reader::Container::new(path).map_err(|e| format!("open: {e}"))?;
    let mut out = String::new();
    let index = c.get_index_for_name("idx").map_err(|e| format!("index: {e}"))?.ok_or("noindex")?;
    let builder = jbk::reader::builder::AnyBuilder::new(
        index.get_store(c.get_entry_storage()).map_err(|e| format!("store: {e}"))?,
        c.get_value_storage().as_ref(),
    )
    .map_err(|e| format!("builder: {e}"))?;
    out += &format!("count={} ", index.count().into_u32());
    for i in index.count() {
        let e = index.get_entry(&builder, i).map_err(|e| format!("entry: {e}"))?.ok_or("noentry")?;
        let name = e.get_value("name").map_err(|e| format!("val: {e}"))?.ok_or("noname")?.as_vec().map_err(|e| format!("vec: {e}"))?;
        let a = e.get_value("c").map_err(|e| format!("val: {e}"))?.ok_or("noc")?.as_content();
        out += &format!("[{} {}:{} ", String::from_utf8_lossy(&name), a.pack_id.into_u16(), a.content_id.into_u32());
        let b = c.get_bytes(a).map_err(|e| format!("get_bytes: {e}"))?;
        match b {
            None => out += "nopack",
            Some(jbk::reader::MayMissPack::MISSING(_)) => out += "missing",
            Some(jbk::reader::MayMissPack::FOUND(None)) => out += "nocontent",
            Some(jbk::reader::MayMissPack::FOUND(Some(r))) => {
                let mut v = vec![];
                r.stream().read_to_end(&mut v).map_err(|e| format!("read: {e}"))?;
                let h = v.iter().fold(0xcbf29ce484222325u64, |h, b| (h ^ *b as u64).wrapping_mul(0x100000001b3));
                out += &format!("len={} h={:x}", v.len(), h);
            }
        }
        out += "]";
    }
    out += &format!(" check={:?}", c.check().map_err(|e| e.to_string()));
    Ok(out)
}

fn content_for(i: u32) -> Vec<u8> {
    let len = (i % 13) as usize + 3;
    (0..len).map(|k| ((i as usize * 31 + k * 7) % 251) as u8 + 1).collect()
}

fn stress(path: &str, make: bool, comp: &str, n: u32, threads: usize, iters: usize) {
    let out = jbk::Utf8PathBuf::from(path);
    if make {
        let comp = match comp {
            "zstd" => jbk::creator::Compression::zstd(),
            "lz4" => jbk::creator::Compression::lz4(),
            "lzma" => jbk::creator::Compression::lzma(),
            _ => jbk::creator::Compression::None,
        };
        let mut creator = jbk::creator::BasicCreator::new(&out, jbk::creator::ConcatMode::OneFile, jbk::VendorId::new([1, 2, 3, 4]), comp, Arc::new(())).unwrap();
        for i in 0..n {
            creator.add_content(Box::new(std::io::Cursor::new(content_for(i))), jbk::creator::CompHint::Yes).unwrap();
        }
        let schema = schema::Schema::new(schema::CommonProperties::new(vec![schema::Property::new_uint("u")]), vec![], None);
        let es = Box::new(jbk::creator::EntryStore::new(schema, None));
        creator.finalize(Box::new(Custom { value_stores: vec![], entry_store: es, count: 0 }), vec![]).unwrap();
        return;
    }
    let c = Arc::new(jbk::reader::Container::new(&out).unwrap());
    let t0 = std::time::Instant::now();
    let hs: Vec<_> = (0..threads).map(|t| {
        let c = Arc::clone(&c);
        std::thread::spawn(move || {
            let mut x = 0x9E3779B97F4A7C15u64.wrapping_mul(t as u64 + 1);
            let mut bad = 0;
            for _ in 0..iters {
                x ^= x << 13; x ^= x >> 7; x ^= x << 17;
                let i = (x % n as u64) as u32;
                let r = c.get_bytes(jbk::ContentAddress::new(1.into(), i.into())).unwrap().unwrap().unwrap().unwrap();
                let mut v = vec![];
                r.stream().read_to_end(&mut v).unwrap();
                if v != content_for(i) { bad += 1; }
            }
            bad
        })
    }).collect();
    let bad: usize = hs.into_iter().map(|h| h.join().unwrap()).sum();
    println!("stress done bad={bad} in {:?}", t0.elapsed());
}

fn main() {
    if std::env::args().nth(1).as_deref() == Some("stress") {
        let a: Vec<String> = std::env::args().collect();
        stress(&a[2], a[3] == "make", &a[4], a[5].parse().unwrap(), a[6].parse().unwrap(), a[7].parse().unwrap());
        return;
    }
    if std::env::args().nth(1).as_deref() == Some("dump") {
        let p = std::env::args().nth(2).unwrap();
        match dump(std::path::Path::new(&p)) {
            Ok(s) => { println!("OK {s}"); }
            Err(e) => { println!("ERR {e}"); }
        }
        return;
    }
    if std::env::args().nth(1).as_deref() == Some("make") {
        let p = std::env::args().nth(2).unwrap();
        let comp = match std::env::args().nth(3).as_deref() {
            Some("zstd") => jbk::creator::Compression::zstd(),
            Some("lz4") => jbk::creator::Compression::lz4(),
            Some("lzma") => jbk::creator::Compression::lzma(),
            _ => jbk::creator::Compression::None,
        };
        let contents: Vec<Vec<u8>> = vec![b"hello hello hello hello".to_vec(), (0..3000u32).map(|i| (i % 7) as u8).collect(), b"".to_vec(), b"world".to_vec()];
        let out = jbk::Utf8PathBuf::from(p);
        let mode = match std::env::args().nth(4).as_deref() { Some("two") => jbk::creator::ConcatMode::TwoFiles, Some("no") => jbk::creator::ConcatMode::NoConcat, _ => jbk::creator::ConcatMode::OneFile };
        let contents = if std::env::args().nth(5).is_some() { vec![b"OLD OLD OLD".to_vec()] } else { contents };
        make_simple(&out, mode, comp, &contents, || jbk::creator::CompHint::Yes);
        return;
    }
    let tmp = tempfile::tempdir().unwrap();
    let which = std::env::args().nth(1).unwrap_or_default();
    let run = |n: &str| which.is_empty() || which == n;
    if run("signed") {
        exp_signed(tmp.path());
    }
    if run("pack") {
        exp_packaging(tmp.path());
    }
    if run("loc") {
        exp_set_location(tmp.path());
    }
    if run("bs") {
        exp_bytestream_from(tmp.path());
    }
    if run("var") {
        exp_variant_trailing_default(tmp.path());
    }
}
