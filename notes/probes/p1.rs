// Probe C01/C16: random insertion sequences through ContentPackCreator / CachedContentAdder
use jubako as jbk;
use jbk::creator::{CompHint, ContentAdder, InputReader};
use std::io::{Read, Write};
use std::rc::Rc;

struct Rng(u64);
impl Rng {
    fn next(&mut self) -> u64 { self.0 ^= self.0 << 13; self.0 ^= self.0 >> 7; self.0 ^= self.0 << 17; self.0 }
    fn below(&mut self, n: u64) -> u64 { self.next() % n }
}

fn gen_content(r: &mut Rng, len: usize, high_entropy: bool) -> Vec<u8> {
    if high_entropy { (0..len).map(|_| r.next() as u8).collect() } else { let b = r.next() as u8; (0..len).map(|i| b.wrapping_add((i / 97) as u8)).collect() }
}

fn main() {
    let seed: u64 = std::env::args().nth(1).unwrap().parse().unwrap();
    let cases: u64 = std::env::args().nth(2).unwrap().parse().unwrap();
    let dir = tempfile::tempdir().unwrap();
    let mut fails = 0;
    for case in 0..cases {
        let mut r = Rng(seed.wrapping_mul(0x9E3779B97F4A7C15) ^ (case + 1).wrapping_mul(0xD1B54A32D192ED03) | 1);
        let comp = match r.below(4) { 0 => jbk::creator::Compression::None, 1 => jbk::creator::Compression::lz4(), 2 => jbk::creator::Compression::lzma(), _ => jbk::creator::Compression::zstd() };
        let n = match r.below(6) { 0 => 0, 1 => 1, 2 => r.below(20), 3 => r.below(300), 4 => 4090 + r.below(12), _ => r.below(9000) } as usize;
        let cached = r.below(3) == 0;
        let path = jbk::Utf8PathBuf::from_path_buf(dir.path().join(format!("c{case}.jbkc"))).unwrap();
        let creator = jbk::creator::ContentPackCreator::new(&path, jbk::PackId::from(1), jbk::VendorId::new([1,2,3,4]), Default::default(), comp).unwrap();
        let mut expected: Vec<(jbk::ContentAddress, Vec<u8>)> = vec![];
        let big_budget = std::cell::Cell::new(3usize);
        let mut add = |adder: &mut dyn ContentAdder, r: &mut Rng, expected: &mut Vec<(jbk::ContentAddress, Vec<u8>)>| {
            let len = match r.below(10) { 0 => 0, 1 => 1, 2 => 255 + r.below(3) as usize, 3 => 65534 + r.below(4) as usize, 4 if big_budget.get() > 0 && n < 400 => { big_budget.set(big_budget.get()-1); (1<<22) - 2 + r.below(5) as usize }, 5 => r.below(5000) as usize, _ => r.below(40) as usize };
            let len = if n > 1000 { len.min(300) } else { len };
            let content = if !expected.is_empty() && r.below(8) == 0 { let k = r.below(expected.len() as u64) as usize; expected[k].1.clone() } else { { let he = r.below(2) == 0; gen_content(r, len, he) } };
            let hint = match r.below(3) { 0 => CompHint::Yes, 1 => CompHint::No, _ => CompHint::Detect };
            let reader: Box<dyn InputReader> = match r.below(3) {
                0 => Box::new(std::io::Cursor::new(content.clone())),
                1 => { let mut f = tempfile::tempfile().unwrap(); f.write_all(&content).unwrap(); Box::new(jbk::creator::InputFile::new(f).unwrap()) }
                _ => { let pre = r.below(50) as usize; let post = r.below(50) as usize; let mut f = tempfile::tempfile().unwrap(); f.write_all(&vec![0xAA; pre]).unwrap(); f.write_all(&content).unwrap(); f.write_all(&vec![0xBB; post]).unwrap(); Box::new(jbk::creator::InputFile::new_range(f, pre as u64, Some(content.len() as u64)).unwrap()) }
            };
            let a = adder.add_content(reader, hint).unwrap();
            expected.push((a, content));
        };
        let (file, data) = if cached {
            let mut adder = jbk::creator::CachedContentAdder::new(creator, Rc::new(()));
            for _ in 0..n { add(&mut adder, &mut r, &mut expected); }
            adder.into_inner().finalize().unwrap()
        } else {
            let mut creator = creator;
            for _ in 0..n { add(&mut creator, &mut r, &mut expected); }
            creator.finalize().unwrap()
        };
        drop(file);
        let _ = data;
        eprintln!("case {case} n={n} cached={cached} comp={comp:?} path={path}");
        // read back
        let reader: jbk::Reader = jbk::FileSource::open(path.as_std_path()).unwrap().into();
        let pack = jbk::reader::ContentPack::new(reader).unwrap();
        let count = pack.get_content_count().into_u32();
        let distinct: std::collections::HashSet<u32> = expected.iter().map(|(a, _)| a.content_id.into_u32()).collect();
        let mut bad = vec![];
        if !cached && count as usize != n { bad.push(format!("count {count} != {n}")); }
        if cached && count as usize != distinct.len() { bad.push(format!("count {count} != distinct {}", distinct.len())); }
        for (i, (a, c)) in expected.iter().enumerate() {
            match pack.get_content(a.content_id) {
                Ok(Some(region)) => { let mut v = vec![]; region.stream().read_to_end(&mut v).unwrap(); if &v != c { bad.push(format!("content {i} addr {:?} mismatch len {} vs {}", a.content_id, v.len(), c.len())); } }
                other => bad.push(format!("content {i}: {:?}", other.map(|o| o.map(|r| r.size())))),
            }
            if bad.len() > 3 { break; }
        }
        match pack.get_content(jbk::ContentIdx::from(count)) { Ok(None) => {}, other => bad.push(format!("past-end: {:?}", other.map(|o| o.map(|r| r.size())))) }
        if !jbk::Pack::check(&pack).unwrap() { bad.push("check false".into()); }
        if !bad.is_empty() { fails += 1; println!("case {case} n={n} cached={cached} comp={comp:?}: {bad:?}"); }
        std::fs::remove_file(&path).unwrap();
    }
    println!("done cases={cases} fails={fails}");
}
