use jubako as jbk;
use std::io::Read;
fn child(path: &str, len: usize) {
    let reader: jbk::Reader = jbk::FileSource::open(path).unwrap().into();
    let pack = jbk::reader::ContentPack::new(reader).unwrap();
    let r = pack.get_content(0.into()).unwrap().unwrap();
    let mut v = vec![];
    r.stream().read_to_end(&mut v).unwrap();
    let mut x = 88172645463325252u64;
    let data: Vec<u8> = (0..len).map(|_| { x ^= x << 13; x ^= x >> 7; x ^= x << 17; x as u8 }).collect();
    println!("read {} equal={}", v.len(), v == data);
}
fn main() {
    if std::env::args().nth(1).as_deref() == Some("child") { child(&std::env::args().nth(2).unwrap(), std::env::args().nth(3).unwrap().parse().unwrap()); return; }
    let dir = tempfile::tempdir().unwrap();
    for (name, comp) in [("lz4", jbk::creator::Compression::lz4()), ("lzma", jbk::creator::Compression::lzma()), ("zstd", jbk::creator::Compression::zstd())] {
        for len in [200usize, 250, 255, 256, 65500, 65535] {
            let path = jbk::Utf8PathBuf::from_path_buf(dir.path().join(format!("{name}{len}.jbkc"))).unwrap();
            let mut c = jbk::creator::ContentPackCreator::new(&path, jbk::PackId::from(1), jbk::VendorId::new([1,2,3,4]), Default::default(), comp).unwrap();
            let mut x = 88172645463325252u64;
            let data: Vec<u8> = (0..len).map(|_| { x ^= x << 13; x ^= x >> 7; x ^= x << 17; x as u8 }).collect();
            let a = c.add_content(Box::new(std::io::Cursor::new(data.clone())), jbk::creator::CompHint::Yes).unwrap();
            c.finalize().unwrap();
            let sz = std::fs::metadata(&path).unwrap().len();
            let exe = std::env::current_exe().unwrap();
            if std::env::args().nth(1).is_some() { continue; }
            let out = std::process::Command::new(exe).arg("child").arg(path.as_str()).arg(len.to_string()).output().unwrap();
            println!("{name} len={len} filesize={sz}: child status={:?} out={}", out.status.code(), String::from_utf8_lossy(&out.stdout).trim());
            let _ = a;
        }
    }
}
