#define _GNU_SOURCE
#include <dlfcn.h>
#include <errno.h>
#include <stdio.h>
#include <stdlib.h>
#include <string.h>
#include <sys/stat.h>
#include <sys/types.h>
#include <unistd.h>
#include <signal.h>

static long fail_at = -1; static int mode = 0; /* 0 count only, 1 kill, 2 error */
static long counter = 0; static int inited = 0; static FILE *logf = NULL; static int failed = 0;
static void init(void){ if(inited) return; inited=1; const char*e=getenv("JBKV_FAIL_AT"); if(e) fail_at=atol(e); e=getenv("JBKV_MODE"); if(e) mode=atoi(e); e=getenv("JBKV_LOG"); if(e) logf=fopen(e,"a"); }
static int is_reg(int fd){ struct stat st; if(fd<=2) return 0; if(fstat(fd,&st)!=0) return 0; return S_ISREG(st.st_mode); }
static int step(const char*what,long n){ init(); long c=__sync_fetch_and_add(&counter,1); if(logf){fprintf(logf,"%ld %s %ld\n",c,what,n); fflush(logf);} 
  if(mode==2 && failed){ errno=ENOSPC; return -1; }
  if(c==fail_at){ if(mode==1){ kill(getpid(),SIGKILL); } if(mode==2){ failed=1; errno=ENOSPC; return -1; } } return 0; }

ssize_t write(int fd,const void*buf,size_t n){ static ssize_t(*real)(int,const void*,size_t); if(!real) real=dlsym(RTLD_NEXT,"write"); if(is_reg(fd)){ if(step("write",n)) return -1; } return real(fd,buf,n); }
ssize_t pwrite64(int fd,const void*buf,size_t n,off_t o){ static ssize_t(*real)(int,const void*,size_t,off_t); if(!real) real=dlsym(RTLD_NEXT,"pwrite64"); if(is_reg(fd)){ if(step("pwrite64",n)) return -1; } return real(fd,buf,n,o); }
ssize_t writev(int fd,const struct iovec*iov,int cnt){ static ssize_t(*real)(int,const struct iovec*,int); if(!real) real=dlsym(RTLD_NEXT,"writev"); if(is_reg(fd)){ if(step("writev",cnt)) return -1; } return real(fd,iov,cnt); }
ssize_t copy_file_range(int a,off64_t*oa,int b,off64_t*ob,size_t n,unsigned f){ static ssize_t(*real)(int,off64_t*,int,off64_t*,size_t,unsigned); if(!real) real=dlsym(RTLD_NEXT,"copy_file_range"); if(is_reg(b)){ if(step("copy_file_range",n)) return -1; } return real(a,oa,b,ob,n,f); }
ssize_t sendfile64(int out,int in,off_t*o,size_t n){ static ssize_t(*real)(int,int,off_t*,size_t); if(!real) real=dlsym(RTLD_NEXT,"sendfile64"); if(is_reg(out)){ if(step("sendfile64",n)) return -1; } return real(out,in,o,n); }
int rename(const char*a,const char*b){ static int(*real)(const char*,const char*); if(!real) real=dlsym(RTLD_NEXT,"rename"); if(step("rename",0)) return -1; return real(a,b); }
int renameat(int da,const char*a,int db,const char*b){ static int(*real)(int,const char*,int,const char*); if(!real) real=dlsym(RTLD_NEXT,"renameat"); if(step("renameat",0)) return -1; return real(da,a,db,b); }
int renameat2(int da,const char*a,int db,const char*b,unsigned f){ static int(*real)(int,const char*,int,const char*,unsigned); if(!real) real=dlsym(RTLD_NEXT,"renameat2"); if(step("renameat2",0)) return -1; return real(da,a,db,b,f); }
int linkat(int da,const char*a,int db,const char*b,int f){ static int(*real)(int,const char*,int,const char*,int); if(!real) real=dlsym(RTLD_NEXT,"linkat"); if(step("linkat",0)) return -1; return real(da,a,db,b,f); }
