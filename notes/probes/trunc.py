import subprocess, sys, os, collections, concurrent.futures as cf
def run(exe, path):
    try: p=subprocess.run([exe,'dump',path],capture_output=True,timeout=10,env={**os.environ,'RUST_BACKTRACE':'0'})
    except subprocess.TimeoutExpired: return ('TIMEOUT','')
    if p.returncode<0: return ('SIGNAL%d'%-p.returncode, p.stderr.decode(errors='replace')[:300])
    if p.returncode!=0: return ('EXIT%d'%p.returncode, p.stderr.decode(errors='replace')[:300])
    out=p.stdout.decode(errors='replace')
    return ('OK' if out.startswith('OK') else 'ERR', out[:80])
def job(a):
    exe,name,n=a
    d=open(name+'.jbk','rb').read()[:n]
    fn='/tmp/jbkexp/w/t_%s_%d_%s.jbk'%(name,n,'r' if 'release' in exe else 'd'); open(fn,'wb').write(d); r=run(exe,fn); os.unlink(fn); return (a,r)
for name in sys.argv[1:]:
  for exe in ['/tmp/jbkexp/target/debug/jbkexp','/tmp/jbkexp/target/release/jbkexp']:
    n=os.path.getsize(name+'.jbk'); tally=collections.Counter(); ex={}
    with cf.ThreadPoolExecutor(16) as pool:
        for a,(st,out) in pool.map(job,[(exe,name,k) for k in range(n)]):
            tally[st]+=1; ex.setdefault(st,[]).append((a[2],out.replace('\n',' ')[:160]))
    print(name, exe.split('/')[-2], dict(tally))
    for k,v in ex.items():
        if k not in ('OK','ERR'): print('   ',k,v[:3], [x[0] for x in v][:30])
