use jubako as jbk;
use jbk::creator::schema;
use jbk::reader::{EntryTrait, Range};
use std::collections::HashMap;
use std::io::Read;
fn main() {
    // 1. memory source from outside the crate
    let dir = tempfile::tempdir().unwrap();
    let path = jbk::Utf8PathBuf::from_path_buf(dir.path().join("m.jbkc")).unwrap();
    let mut c = jbk::creator::ContentPackCreator::new(&path, jbk::PackId::from(1), jbk::VendorId::new([1,2,3,4]), Default::default(), jbk::creator::Compression::None).unwrap();
    c.add_content(Box::new(std::io::Cursor::new(b"hello".to_vec())), Default::default()).unwrap();
    c.add_content(Box::new(std::io::Cursor::new(b"world!".to_vec())), Default::default()).unwrap();
    c.finalize().unwrap();
    let bytes = std::fs::read(&path).unwrap();
    let reader: jbk::Reader = bytes.into();
    let pack = jbk::reader::ContentPack::new(reader).unwrap();
    let mut v = vec![]; pack.get_content(1.into()).unwrap().unwrap().stream().read_to_end(&mut v).unwrap();
    println!("memory source: {:?}", String::from_utf8_lossy(&v));
    // 2. all-empty variants
    let sch = schema::Schema::<&'static str, &'static str>::new(schema::CommonProperties::new(vec![schema::Property::new_uint("k")]), vec![("A", schema::VariantProperties::new(vec![])), ("B", schema::VariantProperties::new(vec![]))], None);
    let mut es = Box::new(jbk::creator::EntryStore::new(sch, None));
    for i in 0..4u64 { let e = jbk::creator::BasicEntry::new_from_schema(&es.schema, Some(if i%2==0 {"A"} else {"B"}), HashMap::from([("k", jbk::Value::Unsigned(i))])); es.add_entry(e); }
    let mut dp = jbk::creator::DirectoryPackCreator::new(jbk::PackId::from(0), jbk::VendorId::new([1,2,3,4]), Default::default());
    let sid = dp.add_entry_store(es);
    dp.create_index("idx", Default::default(), 0.into(), sid, 4.into(), jbk::EntryIdx::from(0).into());
    let p2 = dir.path().join("d.jbkd");
    let mut file = std::fs::OpenOptions::new().read(true).write(true).create(true).truncate(true).open(&p2).unwrap();
    dp.finalize().unwrap().write(&mut file).unwrap(); drop(file);
    let rd: jbk::Reader = jbk::FileSource::open(&p2).unwrap().into();
    let dpk = std::sync::Arc::new(jbk::reader::DirectoryPack::new(rd).unwrap());
    let es = dpk.create_entry_storage(); let vstor = dpk.create_value_storage();
    let index = dpk.get_index_from_name("idx").unwrap().unwrap();
    match index.get_store(&es) { Err(e) => println!("all-empty variants: get_store error: {e}"), Ok(store) => { let b = jbk::reader::builder::AnyBuilder::new(store, vstor.as_ref()).unwrap(); let e = index.get_entry(&b, 1.into()).unwrap().unwrap(); println!("all-empty variants: entry1 variant {:?} k={}", e.get_variant_id().unwrap(), e.get_value("k").unwrap().unwrap().as_unsigned()); } }
}
