use jubako as jbk;
use jbk::creator::schema;
use jbk::reader::{EntryTrait, Range};
use std::collections::HashMap;
fn main() {
    let n: u32 = std::env::args().nth(1).unwrap().parse().unwrap();
    let plain = std::env::args().nth(2).as_deref() == Some("plain");
    let dir = tempfile::tempdir().unwrap();
    let vs = if plain { jbk::creator::ValueStore::new_plain(None) } else { jbk::creator::ValueStore::new_indexed() };
    let sch = schema::Schema::<&'static str, &'static str>::new(schema::CommonProperties::new(vec![schema::Property::new_array(0, vs.clone(), "a")]), vec![], None);
    let mut es = Box::new(jbk::creator::EntryStore::new(sch, None));
    for i in 0..n {
        let e = jbk::creator::BasicEntry::new_from_schema(&es.schema, None, HashMap::from([("a", jbk::Value::Array(format!("value{i:08}").into_bytes().into()))]));
        es.add_entry(e);
    }
    let mut dp = jbk::creator::DirectoryPackCreator::new(jbk::PackId::from(0), jbk::VendorId::new([1,2,3,4]), Default::default());
    dp.add_value_store(vs);
    let sid = dp.add_entry_store(es);
    dp.create_index("idx", Default::default(), 0.into(), sid, n.into(), jbk::EntryIdx::from(0).into());
    let path = dir.path().join("d.jbkd");
    let mut file = std::fs::OpenOptions::new().read(true).write(true).create(true).truncate(true).open(&path).unwrap();
    let t0 = std::time::Instant::now();
    let r = dp.finalize().unwrap().write(&mut file);
    println!("create: {:?} in {:?}", r.as_ref().map(|_| ()).map_err(|e| e.to_string()), t0.elapsed());
    drop(file);
    let rd: jbk::Reader = jbk::FileSource::open(&path).unwrap().into();
    let dpk = std::sync::Arc::new(jbk::reader::DirectoryPack::new(rd).unwrap());
    let es = dpk.create_entry_storage(); let vstor = dpk.create_value_storage();
    let index = dpk.get_index_from_name("idx").unwrap().unwrap();
    let store = index.get_store(&es).unwrap();
    match jbk::reader::builder::AnyBuilder::new(store, vstor.as_ref()) {
        Err(e) => println!("builder error: {}", e.to_string().chars().take(100).collect::<String>()),
        Ok(b) => { let e = index.get_entry(&b, (n-1).into()).unwrap().unwrap(); println!("last = {:?}", String::from_utf8_lossy(&e.get_value("a").unwrap().unwrap().as_vec().unwrap())); }
    }
}
