// Probe C02/C03/C15: random schemas + entries through DirectoryPackCreator, read back with DirectoryPack
use jbk::creator::schema;
use jbk::reader::builder::BuilderTrait;
use jbk::reader::{CompareTrait, EntryTrait, Range};
use jubako as jbk;
use std::cmp::Ordering;
use std::collections::HashMap;

struct Rng(u64);
impl Rng {
    fn next(&mut self) -> u64 {
        self.0 ^= self.0 << 13;
        self.0 ^= self.0 >> 7;
        self.0 ^= self.0 << 17;
        self.0
    }
    fn below(&mut self, n: u64) -> u64 {
        self.next() % n
    }
}

const PNAMES: [&str; 16] = [
    "p0", "p1", "p2", "p3", "p4", "p5", "p6", "p7", "p8", "p9", "p10", "p11", "p12", "p13", "p14", "p15",
];
const VNAMES: [&str; 4] = ["v0", "v1", "v2", "v3"];

#[derive(Clone, Debug)]
enum Kind {
    U,
    S { w: u32 },
    A { fixed: usize, store: usize },
    C,
    Ref,
}

#[derive(Clone, Debug, PartialEq)]
enum Val {
    U(u64),
    S(i64),
    A(Vec<u8>),
    C(u16, u32),
    Ref(usize), // insertion index of referenced entry
}

#[derive(Clone, Debug)]
struct Prop {
    name: &'static str,
    kind: Kind,
    constant: bool,
}

fn gen_u(r: &mut Rng) -> u64 {
    let w = r.below(8) as u32 + 1;
    let base = if w == 8 { u64::MAX } else { (1u64 << (8 * w)) - 1 };
    match r.below(4) {
        0 => base,
        1 => base.wrapping_add(1),
        2 => base.wrapping_sub(1),
        _ => r.next() & base,
    }
}
fn gen_s(r: &mut Rng, _w: u32, _force_max: bool) -> i64 {
    let w = r.below(8) as u32 + 1;
    let hi: i64 = if w == 8 { i64::MAX } else { (1i64 << (8 * w - 1)) - 1 };
    let lo: i64 = if w == 8 { i64::MIN } else { -(1i64 << (8 * w - 1)) };
    match r.below(8) {
        0 => lo,
        1 => hi,
        2 => lo.wrapping_sub(1),
        3 => hi.wrapping_add(1),
        4 => -1,
        5 => 0,
        _ => { let span = (hi as i128 - lo as i128 + 1) as u128; (lo as i128 + (r.next() as u128 % span) as i128) as i64 }
    }
}
fn gen_a(r: &mut Rng, pool: &mut Vec<Vec<u8>>) -> Vec<u8> {
    if !pool.is_empty() && r.below(3) == 0 {
        let k = r.below(pool.len() as u64) as usize;
        let mut v = pool[k].clone();
        match r.below(4) {
            0 => {}
            1 => {
                v.push([0u8, 0xff, b'a'][r.below(3) as usize]);
            }
            2 => {
                v.pop();
            }
            _ => {
                let l = v.len();
                if l > 0 {
                    v[l - 1] = v[l - 1].wrapping_add(1)
                }
            }
        }
        pool.push(v.clone());
        return v;
    }
    let len = match r.below(8) {
        0 => 0,
        1 => 1,
        2 => 255 + r.below(3) as usize,
        3 => 31 + r.below(3) as usize,
        _ => r.below(12) as usize,
    };
    let v: Vec<u8> = (0..len)
        .map(|_| match r.below(4) {
            0 => 0,
            1 => 0xff,
            _ => b'a' + r.below(3) as u8,
        })
        .collect();
    pool.push(v.clone());
    v
}

fn cmp_val(a: &Val, b: &Val) -> Ordering {
    match (a, b) {
        (Val::U(x), Val::U(y)) => x.cmp(y),
        (Val::S(x), Val::S(y)) => x.cmp(y),
        (Val::A(x), Val::A(y)) => x.cmp(y),
        _ => panic!(),
    }
}

struct Cmp<'a> {
    builder: &'a jbk::reader::builder::AnyBuilder,
    keys: Vec<(&'static str, Val)>,
    ordered: bool,
}
impl CompareTrait for Cmp<'_> {
    fn ordered(&self) -> bool {
        self.ordered
    }
    fn compare_entry(&self, idx: jbk::EntryIdx) -> jbk::Result<Ordering> {
        let e = self.builder.create_entry(idx)?.unwrap();
        for (n, v) in &self.keys {
            let rv = e.get_value(n)?.unwrap();
            let o = match (v, &rv) {
                (Val::U(x), _) => rv.as_unsigned().cmp(x),
                (Val::S(x), _) => rv.as_signed().cmp(x),
                (Val::A(x), jbk::reader::RawValue::Array(a)) => a.cmp(x)?,
                _ => panic!(),
            };
            if o != Ordering::Equal {
                return Ok(o);
            }
        }
        Ok(Ordering::Equal)
    }
}

fn run_case(seed: u64, case: u64, dir: &std::path::Path, verbose: bool) -> Vec<String> {
    let mut r = Rng(seed.wrapping_mul(0x9E3779B97F4A7C15) ^ (case + 1).wrapping_mul(0xD1B54A32D192ED03) | 1);
    let nstores = r.below(4) as usize;
    let store_kinds: Vec<bool> = (0..nstores).map(|_| r.below(2) == 0).collect(); // true=plain
    let stores: Vec<jbk::creator::StoreHandle> = store_kinds
        .iter()
        .map(|p| if *p { jbk::creator::ValueStore::new_plain(None) } else { jbk::creator::ValueStore::new_indexed() })
        .collect();
    let mut name_i = 0;
    let mut gen_prop = |r: &mut Rng, last_in_variant: bool, allow_ref: bool| -> Prop {
        let name = PNAMES[name_i];
        name_i += 1;
        let mut k = r.below(if allow_ref { 5 } else { 4 });
        let _ = last_in_variant;
        if k == 2 && nstores == 0 {
            k = 0;
        }
        let kind = match k {
            0 => Kind::U,
            1 => Kind::S { w: r.below(8) as u32 + 1 },
            2 => Kind::A { fixed: [0, 0, 1, 2, 3, 5, 31][r.below(7) as usize], store: r.below(nstores as u64) as usize },
            3 => Kind::C,
            _ => Kind::Ref,
        };
        Prop { name, kind, constant: r.below(4) == 0 }
    };
    let ncommon = r.below(5) as usize;
    let common: Vec<Prop> = (0..ncommon).map(|_| gen_prop(&mut r, false, true)).collect();
    let nvar = if r.below(2) == 0 { 0 } else { r.below(3) as usize + 1 };
    let variants: Vec<Vec<Prop>> = (0..nvar)
        .map(|_| {
            let n = r.below(4) as usize;
            (0..n).map(|i| gen_prop(&mut r, i + 1 == n, false)).collect()
        })
        .collect();
    // sort keys among common U/S/A non-constant
    let sortable: Vec<&Prop> = common.iter().filter(|p| matches!(p.kind, Kind::U | Kind::S { .. } | Kind::A { .. })).collect();
    let sort_keys: Option<Vec<&'static str>> = if !sortable.is_empty() && r.below(2) == 0 {
        let n = r.below(sortable.len().min(2) as u64) as usize + 1;
        Some(sortable.iter().take(n).map(|p| p.name).collect())
    } else {
        None
    };
    let nentries = match r.below(6) {
        0 => 0,
        1 => 1,
        2 => 2,
        3 => r.below(300),
        4 => 255 + r.below(3),
        _ => r.below(40),
    } as usize;

    let mk_schema_prop = |p: &Prop| match &p.kind {
        Kind::U | Kind::Ref => schema::Property::new_uint(p.name),
        Kind::S { .. } => schema::Property::new_sint(p.name),
        Kind::A { fixed, store } => schema::Property::new_array(*fixed, stores[*store].clone(), p.name),
        Kind::C => schema::Property::new_content_address(p.name),
    };
    let sch = schema::Schema::new(
        schema::CommonProperties::new(common.iter().map(mk_schema_prop).collect()),
        variants
            .iter()
            .enumerate()
            .map(|(i, v)| (VNAMES[i], schema::VariantProperties::new(v.iter().map(mk_schema_prop).collect())))
            .collect(),
        sort_keys.clone(),
    );
    let mut es = Box::new(jbk::creator::EntryStore::<&'static str, &'static str, jbk::creator::BasicEntry<&'static str, &'static str>>::new(sch, None));

    // generate entries
    let mut pool: Vec<Vec<u8>> = vec![];
    let mut constants: HashMap<&'static str, Val> = HashMap::new();
    let mut model: Vec<(Option<usize>, HashMap<&'static str, Val>)> = vec![];
    let mut seen_keys: std::collections::HashSet<String> = Default::default();
    let mut bounds: Vec<jbk::Bound<jbk::EntryIdx>> = vec![];
    let mut forced: std::collections::HashSet<&'static str> = Default::default();
    let mut attempts = 0;
    while model.len() < nentries && attempts < nentries * 20 + 20 {
        attempts += 1;
        let var = if nvar == 0 { None } else { Some(r.below(nvar as u64) as usize) };
        let mut vals: HashMap<&'static str, Val> = HashMap::new();
        let props: Vec<&Prop> = common.iter().chain(var.iter().flat_map(|v| variants[*v].iter())).collect();
        for p in props {
            let is_sort = sort_keys.as_ref().map_or(false, |k| k.contains(&p.name));
            let gen = |r: &mut Rng, pool: &mut Vec<Vec<u8>>, forced: &mut std::collections::HashSet<&'static str>, model_len: usize| match &p.kind {
                Kind::U => Val::U(gen_u(r)),
                Kind::S { w } => {
                    let f = forced.insert(p.name);
                    Val::S(gen_s(r, *w, f))
                }
                Kind::A { .. } => Val::A(gen_a(r, pool)),
                Kind::C => Val::C(if r.below(2) == 0 { 1 } else { [0u16, 255, 256, 65535][r.below(4) as usize] }, [0u32, 255, 256, 65535, 65536, 0xFFFFFF, 0x1000000, u32::MAX][r.below(8) as usize]),
                Kind::Ref => Val::Ref(r.below(nentries as u64) as usize),
            };
            let v = if p.constant && !is_sort {
                constants.entry(p.name).or_insert_with(|| gen(&mut r, &mut pool, &mut forced, model.len())).clone()
            } else {
                gen(&mut r, &mut pool, &mut forced, model.len())
            };
            vals.insert(p.name, v);
        }
        if let Some(keys) = &sort_keys {
            let k = format!("{:?}", keys.iter().map(|k| &vals[k]).collect::<Vec<_>>());
            if !seen_keys.insert(k) {
                continue;
            }
        }
        model.push((var, vals));
    }
    let nentries_real = model.len();
    // fix refs to be < nentries_real, create Vows first so forward references work
    let vows: Vec<jbk::Vow<jbk::EntryIdx>> = (0..nentries_real).map(|_| jbk::Vow::new(jbk::EntryIdx::from(0))).collect();
    let bound_of: Vec<jbk::Bound<jbk::EntryIdx>> = vows.iter().map(|v| v.bind()).collect();
    for (_, vals) in model.iter_mut() {
        for v in vals.values_mut() {
            if let Val::Ref(i) = v {
                *i %= nentries_real.max(1);
            }
        }
    }
    for ((var, vals), vow) in model.iter().zip(vows.into_iter()) {
        let mut hm: HashMap<&'static str, jbk::Value> = HashMap::new();
        for (n, v) in vals {
            let jv = match v {
                Val::U(x) => jbk::Value::Unsigned(*x),
                Val::S(x) => jbk::Value::Signed(*x),
                Val::A(x) => jbk::Value::Array(x.clone().into()),
                Val::C(p, c) => jbk::Value::Content(jbk::ContentAddress::new((*p).into(), (*c).into())),
                Val::Ref(t) => jbk::Value::UnsignedWord(bound_of[*t].clone().into()),
            };
            hm.insert(*n, jv);
        }
        let entry = jbk::creator::BasicEntry::new_from_schema_idx(&es.schema, vow, var.map(|v| VNAMES[v]), hm);
        bounds.push(es.add_entry(entry));
    }

    let mut dp = jbk::creator::DirectoryPackCreator::new(jbk::PackId::from(0), jbk::VendorId::new([1, 2, 3, 4]), Default::default());
    for s in &stores {
        dp.add_value_store(s.clone());
    }
    let sid = dp.add_entry_store(es);
    // index windows
    let mut windows = vec![(0usize, nentries_real)];
    for _ in 0..2 {
        let off = r.below(nentries_real as u64 + 1) as usize;
        let cnt = r.below((nentries_real - off) as u64 + 1) as usize;
        windows.push((off, cnt));
    }
    for (i, (off, cnt)) in windows.iter().enumerate() {
        dp.create_index(&format!("idx{i}"), Default::default(), 0.into(), sid, (*cnt as u32).into(), jbk::EntryIdx::from(*off as u32).into());
    }
    let path = dir.join(format!("d{case}.jbkd"));
    let mut file = std::fs::OpenOptions::new().read(true).write(true).create(true).truncate(true).open(&path).unwrap();
    let res = std::panic::catch_unwind(std::panic::AssertUnwindSafe(|| dp.finalize().unwrap().write(&mut file)));
    let mut bad = vec![];
    let desc = format!(
        "stores={:?} common={:?} variants={:?} sort={:?} n={}",
        store_kinds, common, variants, sort_keys, nentries_real
    );
    if verbose {
        println!("{desc}");
    }
    match res {
        Err(_) => {
            bad.push(format!("creation panicked: {desc}"));
            return bad;
        }
        Ok(Err(e)) => {
            bad.push(format!("creation error {e}: {desc}"));
            return bad;
        }
        Ok(Ok(_)) => {}
    }
    drop(file);
    // expected order
    let mut order: Vec<usize> = (0..nentries_real).collect();
    if let Some(keys) = &sort_keys {
        order.sort_by(|a, b| {
            for k in keys {
                let o = cmp_val(&model[*a].1[k], &model[*b].1[k]);
                if o != Ordering::Equal {
                    return o;
                }
            }
            Ordering::Equal
        });
    }
    let mut final_pos = vec![0usize; nentries_real];
    for (pos, ins) in order.iter().enumerate() {
        final_pos[*ins] = pos;
    }
    for (ins, b) in bounds.iter().enumerate() {
        if b.get().into_u32() as usize != final_pos[ins] {
            bad.push(format!("bound of entry {ins} = {} expected {}", b.get().into_u32(), final_pos[ins]));
            break;
        }
    }
    // read back
    let rd: jbk::Reader = jbk::FileSource::open(&path).unwrap().into();
    let dpk = match jbk::reader::DirectoryPack::new(rd) {
        Ok(d) => std::sync::Arc::new(d),
        Err(e) => {
            bad.push(format!("open error {e}: {desc}"));
            return bad;
        }
    };
    let estorage = dpk.create_entry_storage();
    let vstorage = dpk.create_value_storage();
    'w: for (wi, (off, cnt)) in windows.iter().enumerate() {
        let index = dpk.get_index_from_name(&format!("idx{wi}")).unwrap().unwrap();
        let store = match index.get_store(&estorage) {
            Ok(s) => s,
            Err(e) => {
                bad.push(format!("get_store error {e}: {desc}"));
                break;
            }
        };
        let builder = match jbk::reader::builder::AnyBuilder::new(store, vstorage.as_ref()) {
            Ok(b) => b,
            Err(e) => {
                bad.push(format!("builder error {e}: {desc}"));
                break;
            }
        };
        if index.count().into_u32() as usize != *cnt {
            bad.push("count".into());
        }
        for i in 0..*cnt {
            let e = index.get_entry(&builder, (i as u32).into()).unwrap().unwrap();
            let (var, vals) = &model[order[off + i]];
            let gv = e.get_variant_id().unwrap().map(|v| v.into_u8() as usize);
            if gv != *var {
                bad.push(format!("w{wi} entry {i} variant {gv:?} != {var:?}"));
                break 'w;
            }
            for (n, v) in vals {
                let rv = match e.get_value(n) {
                    Ok(Some(v)) => v,
                    other => {
                        bad.push(format!("w{wi} entry {i} prop {n}: {:?}", other.map(|_| ())));
                        break 'w;
                    }
                };
                let ok = match v {
                    Val::U(x) => matches!(rv, jbk::reader::RawValue::U8(_) | jbk::reader::RawValue::U16(_) | jbk::reader::RawValue::U32(_) | jbk::reader::RawValue::U64(_)) && rv.as_unsigned() == *x,
                    Val::S(x) => matches!(rv, jbk::reader::RawValue::I8(_) | jbk::reader::RawValue::I16(_) | jbk::reader::RawValue::I32(_) | jbk::reader::RawValue::I64(_)) && rv.as_signed() == *x,
                    Val::A(x) => matches!(rv, jbk::reader::RawValue::Array(_)) && rv.as_vec().map(|g| g.as_ref() == x.as_slice()).unwrap_or(false),
                    Val::C(p, c) => matches!(rv, jbk::reader::RawValue::Content(_)) && rv.as_content() == jbk::ContentAddress::new((*p).into(), (*c).into()),
                    Val::Ref(t) => rv.as_unsigned() == final_pos[*t] as u64,
                };
                if !ok {
                    bad.push(format!("w{wi} entry {i} prop {n}: wrote {v:?} read {rv:?} (finalpos {:?})", if let Val::Ref(t) = v { Some(final_pos[*t]) } else { None }));
                    break 'w;
                }
            }
        }
        if index.get_entry(&builder, (*cnt as u32).into()).unwrap().is_some() {
            bad.push("entry past window".into());
        }
        // lookups
        if let Some(keys) = &sort_keys {
            for probe in 0..(*cnt).min(30) {
                let i = if *cnt <= 30 { probe } else { r.below(*cnt as u64) as usize };
                let kv: Vec<(&'static str, Val)> = keys.iter().map(|k| (*k, model[order[off + i]].1[k].clone())).collect();
                for ordered in [true, false] {
                    let c = Cmp { builder: &builder, keys: kv.clone(), ordered };
                    match index.find(&c) {
                        Ok(Some(idx)) if idx.into_u32() as usize == i => {}
                        other => {
                            bad.push(format!("w{wi} find({kv:?}, ordered={ordered}) = {:?} expected {i}", other.map(|o| o.map(|i| i.into_u32()))));
                            break 'w;
                        }
                    }
                }
            }
            // absent probes: mutate a present key
            for _ in 0..10 {
                if nentries_real == 0 {
                    break;
                }
                let base = &model[r.below(nentries_real as u64) as usize].1;
                let mut kv: Vec<(&'static str, Val)> = keys.iter().map(|k| (*k, base[k].clone())).collect();
                let last = kv.len() - 1;
                kv[last].1 = match &kv[last].1 {
                    Val::U(x) => Val::U(x.wrapping_add(1)),
                    Val::S(x) => Val::S(x.wrapping_add(1)),
                    Val::A(x) => {
                        let mut y = x.clone();
                        y.push(0);
                        Val::A(y)
                    }
                    v => v.clone(),
                };
                let expect: Option<usize> = (0..*cnt).find(|i| keys.iter().zip(kv.iter()).all(|(k, (_, v))| &model[order[off + i]].1[k] == v));
                for ordered in [true, false] {
                    let c = Cmp { builder: &builder, keys: kv.clone(), ordered };
                    let got = index.find(&c).map(|o| o.map(|i| i.into_u32() as usize));
                    if got.as_ref().ok() != Some(&expect) {
                        bad.push(format!("w{wi} find-absent({kv:?}, ordered={ordered}) = {got:?} expected {expect:?}"));
                        break 'w;
                    }
                }
            }
        }
    }
    if !bad.is_empty() {
        bad.push(desc);
    }
    let _ = std::fs::remove_file(&path);
    bad
}

fn main() {
    let seed: u64 = std::env::args().nth(1).unwrap().parse().unwrap();
    let cases: u64 = std::env::args().nth(2).unwrap().parse().unwrap();
    let only: Option<u64> = std::env::args().nth(3).map(|s| s.parse().unwrap());
    let dir = tempfile::tempdir().unwrap();
    std::panic::set_hook(Box::new(|_| {}));
    let mut fails = 0;
    for case in 0..cases {
        if let Some(o) = only {
            if o != case {
                continue;
            }
        }
        let res = std::panic::catch_unwind(|| run_case(seed, case, dir.path(), only.is_some()));
        match res {
            Ok(bad) if bad.is_empty() => {}
            Ok(bad) => {
                fails += 1;
                println!("case {case}: {}", bad.join("\n    "));
            }
            Err(e) => {
                fails += 1;
                println!("case {case}: PANIC {:?}", e.downcast_ref::<String>().map(|s| s.as_str()).or(e.downcast_ref::<&str>().copied()));
            }
        }
    }
    println!("done cases={cases} fails={fails}");
}
