import subprocess, sys, os, collections, concurrent.futures as cf
exe_d='/tmp/jbkexp/target/debug/jbkexp'; exe_r='/tmp/jbkexp/target/release/jbkexp'
def run(exe, path):
    try:
        p=subprocess.run([exe,'dump',path],capture_output=True,timeout=10)
    except subprocess.TimeoutExpired:
        return ('TIMEOUT','')
    out=p.stdout.decode(errors='replace').strip()
    if p.returncode<0: return ('SIGNAL%d'%-p.returncode, p.stderr.decode(errors='replace')[-300:])
    if p.returncode!=0: return ('EXIT%d'%p.returncode, p.stderr.decode(errors='replace')[-300:])
    return ('OK' if out.startswith('OK') else 'ERR', out)
def job(args):
    exe,name,kind,pos,mask=args
    data=bytearray(open(name+'.jbk','rb').read())
    if kind=='flip': data[pos]^=mask
    elif kind=='trunc': data=data[:pos]
    fn='/tmp/jbkexp/w/m_%s_%s_%d_%d_%s.jbk'%(name,kind,pos,mask,os.path.basename(os.path.dirname(exe)))
    open(fn,'wb').write(data)
    r=run(exe,fn); os.unlink(fn)
    return (args,r)
name=sys.argv[1]; exe={'d':exe_d,'r':exe_r}[sys.argv[2]]
base=run(exe,name+'.jbk')[1]
n=os.path.getsize(name+'.jbk')
jobs=[(exe,name,'flip',p,m) for p in range(n) for m in (0x01,0x80)]
tally=collections.Counter(); ex={}
with cf.ThreadPoolExecutor(16) as pool:
    for args,(st,out) in pool.map(job,jobs):
        k=args[2]
        if st=='OK':
            st='OK_SAME' if out==base else ('OK_CHECKFAIL_ONLY' if out.replace('check=Ok(false)','check=Ok(true)')==base else 'OK_DIFF')
        tally[(k,st)]+=1
        ex.setdefault((k,st),[]).append((args[3],args[4],out[:200]))
for k,v in sorted(tally.items()): print(k,v)
for k,v in sorted(ex.items()):
    if k[1] not in ('OK_SAME','ERR'):
        print('---',k,len(v)); 
        for e in v[:4]: print('    ',e)
        print('     positions:',sorted(set(e[0] for e in v))[:40])
import re
print("=== OK_DIFF structural")
strip=lambda s: re.sub(r'h=[0-9a-f]+','h=X',s).replace('check=Ok(false)','check=Ok(true)')
cnt=0
for (p,m,out) in ex.get(('flip','OK_DIFF'),[]):
    pass
