import subprocess, os, shutil, sys, collections
exe='/tmp/jbkexp/target/release/jbkexp'; shim='/tmp/jbkexp/shim/shim.so'
def run_create(dest, mode, k=None, fm=0, old=False):
    env=dict(os.environ)
    if k is not None: env.update(LD_PRELOAD=shim, JBKV_FAIL_AT=str(k), JBKV_MODE=str(fm))
    args=[exe,'make',dest,'zstd',mode]+(['old'] if old else [])
    return subprocess.run(args,capture_output=True,env=env)
def dump(path):
    p=subprocess.run([exe,'dump',path],capture_output=True,timeout=20); return p.returncode, p.stdout.decode(errors='replace').strip()
tally=collections.Counter(); bad=[]
for mode in ['one','two','no']:
    # reference dumps
    d='/tmp/jbkexp/w/c9ref'; shutil.rmtree(d,ignore_errors=True); os.makedirs(d)
    run_create(d+'/a.jbk',mode); rc,new_dump=dump(d+'/a.jbk'); assert new_dump.startswith('OK'), new_dump
    env=dict(os.environ, LD_PRELOAD=shim, JBKV_LOG=d+'/log.txt'); subprocess.run([exe,'make',d+'/b.jbk','zstd',mode],env=env,capture_output=True)
    nw=sum(1 for _ in open(d+'/log.txt')); print(mode,'writes',nw)
    for pre in [False, True]:
        for fm in [1,2]:
            for k in range(nw+1):
                d='/tmp/jbkexp/w/c9run'; shutil.rmtree(d,ignore_errors=True); os.makedirs(d)
                old_bytes=None
                if pre:
                    run_create(d+'/a.jbk',mode,old=True); old_bytes=open(d+'/a.jbk','rb').read()
                r=run_create(d+'/a.jbk',mode,k,fm)
                dest=d+'/a.jbk'
                if not os.path.exists(dest): st='absent'; ok=(not pre)
                else:
                    b=open(dest,'rb').read()
                    if pre and b==old_bytes: st='old'; ok=True
                    else:
                        rc,out=dump(dest); st='new-ok' if out==new_dump else 'new-BAD'; ok=(out==new_dump)
                        if not ok: st+=':'+out[:100]
                if k>=nw: ok = ok and st=='new-ok'
                tally[(mode,pre,fm,st.split(':')[0])]+=1
                if not ok: bad.append((mode,pre,fm,k,st,r.returncode))
for k,v in sorted(tally.items()): print(k,v)
print('BAD',len(bad)); [print(b) for b in bad[:10]]
