#!/bin/sh
# usage: confirm_seed.sh <ID> <a|b>   confirm a seeded change in its scratch worktree /tmp/seed-<ID>:
#   suite passes with the change, demo fails with it, demo passes without it.
ID="$1"; V="$2"; W=/tmp/seed7-$ID; O=/tmp/seed7-out/$ID
cd "$W" || exit 3
git checkout -q -- . ; rm -f tests/seed_demo_*.rs
FEAT="--features lz4,lzma,zstd"
[ -f "$O/release_$V" ] && FEAT="--release $FEAT"   # the change only shows in an optimised build
git apply "$O/$V.diff" || { echo "$ID-$V: PATCH-DOES-NOT-APPLY"; exit 3; }
cargo test --workspace --no-run --offline >/dev/null 2>&1; flock /tmp/jbk-suite.lock cargo test --workspace --no-fail-fast --offline > /tmp/seed7-out/$ID/confirm-$V-suite.log 2>&1; suite=$?
cp "$O/demo_$V.rs" tests/seed_demo_$V.rs
timeout 900 cargo test --offline $FEAT --test seed_demo_$V > /tmp/seed7-out/$ID/confirm-$V-demo-with.log 2>&1; with=$?
git checkout -q -- .
timeout 900 cargo test --offline $FEAT --test seed_demo_$V > /tmp/seed7-out/$ID/confirm-$V-demo-without.log 2>&1; without=$?
rm -f tests/seed_demo_*.rs
echo "$ID-$V: suite_with_change=$suite demo_with_change=$with demo_without_change=$without"
