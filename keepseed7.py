#!/usr/bin/env python3
"""keepseed.py <ID> <a|b> <needs-to-manifest> <detected: 'C01:sig; C16:sig' | 'MISSED'>
Copies a confirmed seeded change from /tmp/seed-out/<ID>/ to /verif/seeded/<ID>-<v>/ with meta.json."""
import sys, os, json, shutil, re, subprocess
pid, v, needs, detected = sys.argv[1:5]
src=f'/tmp/seed7-out/{pid}'; dst=f'/verif/seeded/{pid}-'+{'a':'m','b':'n'}[v]
os.makedirs(dst, exist_ok=True)
shutil.copy(f'{src}/{v}.diff', f'{dst}/patch.diff'); shutil.copy(f'{src}/demo_{v}.rs', f'{dst}/demo.rs')
conf=[l for l in open(f'{src}/confirm.txt') if l.startswith(f'{pid}-{v}:')]
m=re.search(r'suite_with_change=(\d+) demo_with_change=(\d+) demo_without_change=(\d+)', conf[-1]) if conf else None
files=sorted(set(re.findall(r'^\+\+\+ b/(\S+)', open(f'{dst}/patch.diff').read(), re.M)))
head=subprocess.run(['git','-C','/repo','log','--format=%h','-n1'],capture_output=True,text=True).stdout.strip()
meta={
 "property": pid, "variant": v, "files_changed": files,
 "needs_to_manifest": needs,
 "origin": "written by an independent sub-agent given only the property text and a scratch worktree",
 "confirmed_in_scratch_worktree": {"base_commit": head, "existing_suite_exit_with_change": int(m.group(1)) if m else None, "demo_exit_with_change": int(m.group(2)) if m else None, "demo_exit_without_change": int(m.group(3)) if m else None,
   "commands": ["git apply patch.diff && cargo test --workspace --no-fail-fast --offline", "cp demo.rs tests/seed_demo.rs && cargo test --offline --features lz4,lzma,zstd --test seed_demo  (with and without the patch)"]},
 "checks_run": "git -C /repo apply patch.diff; ./check <ID> quick; git -C /repo checkout -- .",
 "detected_by": detected,
}
json.dump(meta, open(f'{dst}/meta.json','w'), indent=1)
print('kept', dst)
