#!/usr/bin/env python3
"""Write mutsweep/SUMMARY.md from results.jsonl + triage.json (survivor -> verdict)."""
import json, collections
recs=[json.loads(l) for l in open('/verif/mutsweep/results.jsonl')]
tri=json.load(open('/verif/mutsweep/triage.json'))
c=collections.Counter(r['status'] for r in recs)
by=collections.Counter(r.get('by') for r in recs if r['status']=='caught')
out=[]
out.append('# Mechanical mutation sweep: results\n')
out.append('Produced by `mutsweep.py run --per-file 3 --seed 11` on the repaired tree (d7927fa) with the checks as of the commit that\nadded this file; single-token mutants of the files the properties are anchored in (see DESIGN §13.1).\n')
out.append(f'* mutants generated: **{len(recs)}** over {len(set(r["file"] for r in recs))} files')
out.append(f'* did not compile: {c["uncompilable"]} (not counted)')
out.append(f'* noticed by the repository\'s own suite: {c["suite"]}')
out.append(f'* compiled, passed the suite, **caught by a quick tier: {c["caught"]}** ({", ".join(f"{k}: {v}" for k,v in sorted(by.items()))})')
out.append(f'* compiled, passed the suite, survived every quick tier that anchors the file: {c["survived"]}\n')
verd=collections.Counter()
rows=[]
for r in recs:
    if r['status']!='survived': continue
    key=f"{r['file']}:{r['line']}:{r['op']}:{r['after']}"
    t=tri.get(f"{r['file']}:{r['line']}:{r['op']}") or tri.get(f"{r['file']}:{r['line']}") or {'v':'UNTRIAGED','why':''}
    verd[t['v']]+=1
    rows.append((r['file'],r['line'],r['op'],r['before'][:70],r['after'][:70],t['v'],t['why']))
out.append('Triage of the survivors: '+', '.join(f'**{k}**: {v}' for k,v in verd.most_common())+'.\n')
out.append('Verdicts: *equivalent* = no behaviour any listed property can observe changes (capacities, buffer initial values that are overwritten, in-memory/mmap thresholds, Display/serde output of the `explorable` feature, constants of unused code); *out of scope* = behaviour changes, but in something no listed property speaks of (command-line front end, compression framing options, heuristics the properties leave free); *strengthened* = a real miss: the check named was extended and now catches the mutant (re-run by hand).\n')
out.append('| file:line | mutation | before → after | verdict | why |')
out.append('|---|---|---|---|---|')
for f,l,op,b,a,v,w in rows:
    out.append(f'| {f}:{l} | {op} | `{b}` → `{a}` | {v} | {w} |')
open('/verif/mutsweep/SUMMARY.md','w').write('\n'.join(out)+'\n')
print(verd)
