#!/usr/bin/env python3
"""Mechanical mutation sweep: a sensitivity measurement for the registered checks.

Not one of the registered checks.  It answers "which small, compiling, suite-passing changes to the
anchored files do the quick tiers notice?" on a SCRATCH worktree of /repo and a SCRATCH copy of the
harness (JBKV_VERIF_DIR), so /repo and /verif are never touched while it runs.

  mutsweep.py setup                     create /tmp/mut (worktree + harness copy), warm builds
  mutsweep.py run --n N --seed S [--per-file K] [--files f1,f2] [--out results.jsonl]
  mutsweep.py teardown                  remove the scratch tree and the worktree

Per mutant: (1) `cargo build` of the scratch repo (not compiling -> skipped), (2) the repository's own
suite (failing -> "suite": the existing tests already see it), (3) the quick tier of every check whose
property anchors the mutated file, cheapest first, until one reports a VIOLATION.
"""
import json, os, random, re, shutil, subprocess, sys, time

MUT = "/tmp/mut"
REPO = f"{MUT}/repo"
VERIF = f"{MUT}/verif"
ENV = dict(os.environ, CARGO_NET_OFFLINE="true", JBKV_VERIF_DIR=VERIF, JBKV_QUIET_PANICS="1",
           JBKV_SCRATCH="/dev/shm/mutsweep")
ENV.setdefault("VERIF_SEED", "1")
# cheapest first (quick tier wall time on this machine)
COST = {"C13": 3, "C03": 4, "C02": 6, "C15": 6, "C12": 6, "C14": 8, "C16": 8, "C11": 8, "C10": 9, "C01": 10,
        "C04": 10, "C08": 14, "C07": 16, "C05": 22, "C09": 26, "C06": 52}


def sh(cmd, cwd=None, timeout=3600, env=None):
    p = subprocess.run(cmd, shell=True, cwd=cwd, env=env or ENV, stdout=subprocess.PIPE, stderr=subprocess.STDOUT,
                       timeout=timeout)
    return p.returncode, p.stdout.decode(errors="replace")


def anchors():
    m = {}
    for l in open("/verif/properties.jsonl"):
        d = json.loads(l)
        for f in d["anchors"]["files"]:
            if f.startswith("src/") and f.endswith(".rs"):
                m.setdefault(f, []).append(d["id"])
    return m


def setup():
    if os.path.exists(MUT):
        teardown()
    os.makedirs(MUT)
    rc, out = sh(f"git -C /repo worktree add --detach {REPO} HEAD")
    assert rc == 0, out
    os.makedirs(VERIF)
    for d in ["harness", "shim", "regress", "corpus", ".cargo"]:
        shutil.copytree(f"/verif/{d}", f"{VERIF}/{d}")
    shutil.copy("/verif/known_findings.txt", f"{VERIF}/known_findings.txt")
    for d in ["evidence", "replays", "target"]:
        os.makedirs(f"{VERIF}/{d}", exist_ok=True)
    t = open(f"{VERIF}/harness/Cargo.toml").read().replace('path = "/repo"', f'path = "{REPO}"')
    open(f"{VERIF}/harness/Cargo.toml", "w").write(t)
    c = open(f"{VERIF}/.cargo/config.toml").read().replace('"/verif/target"', f'"{VERIF}/target"')
    open(f"{VERIF}/.cargo/config.toml", "w").write(c)
    rc, out = sh(f"cc -O2 -shared -fPIC -o {VERIF}/target/faultfs.so {VERIF}/shim/faultfs.c -ldl -lpthread")
    assert rc == 0, out
    rc, out = build_harness(True)
    assert rc == 0, out[-3000:]
    rc, out = sh("cargo test --workspace --no-fail-fast --offline", cwd=REPO, env=dict(os.environ, CARGO_NET_OFFLINE="true"))
    assert rc == 0, out[-3000:]
    print("setup ok")


def teardown():
    sh(f"git -C /repo worktree remove --force {REPO}")
    shutil.rmtree(MUT, ignore_errors=True)
    sh("git -C /repo worktree prune")


def build_harness(dbg):
    rc, out = sh("cargo build --release --offline", cwd=f"{VERIF}/harness")
    if rc == 0 and dbg:
        rc, out = sh("cargo build --profile dbg --bin jbkv-reader --offline", cwd=f"{VERIF}/harness")
    return rc, out


# --- mutation operators: (name, regex, replacement) applied to one match on one line -----------------
OPS = [
    ("le->lt", r"<=", "<"), ("ge->gt", r">=(?!>)", ">"),
    ("lt->le", r"(?<= )<(?= )", "<="), ("gt->ge", r"(?<= )>(?= )", ">="),
    ("eq->ne", r"==", "!="), ("ne->eq", r"!=", "=="),
    ("add->sub", r"(?<= )\+(?= )", "-"), ("sub->add", r"(?<= )-(?= )", "+"),
    ("drop+1", r" \+ 1\b(?!\d|\.)", ""), ("drop-1", r" - 1\b(?!\d|\.)", ""),
    ("and->or", r"&&", "||"), ("or->and", r"\|\|(?! \{)", "&&"),
    ("true->false", r"\btrue\b", "false"), ("false->true", r"\bfalse\b", "true"),
    ("min->max", r"\.min\(", ".max("), ("max->min", r"\.max\(", ".min("),
    ("shl->shr", r"<<(?!=)", ">>"), ("shr->shl", r"(?<= )>>(?= )", "<<"),
    ("drop-not", r"(?<=if )!(?=[a-z(])", ""),
    ("mul->div", r"(?<= )\*(?= )", "/"),
]
NUM = re.compile(r"(?<![\w.])(0x[0-9A-Fa-f_]+|\d[\d_]*)(?![\w.]*\")(?=(?:_?(?:u8|u16|u32|u64|usize|i8|i16|i32|i64))?\b)")
CALLQ = re.compile(r"^\s*[A-Za-z_][\w:\.]*(?:\([^;]*\))?[\w\.\(\)&, :]*\)\?;\s*$")


def code_lines(path):
    src = open(path).read().split("\n")
    end = len(src)
    for i, l in enumerate(src):
        if l.strip() == "#[cfg(test)]" and i + 1 < len(src) and src[i + 1].lstrip().startswith("mod "):
            end = i
            break
    skip_next = 0
    for i in range(end):
        l = src[i]
        s = l.strip()
        if not s or s.startswith("//") or s.startswith("#[") or s.startswith("use ") or s.startswith("pub use "):
            if "jubako_verif" in s:
                skip_next = 2
            continue
        if skip_next:
            skip_next -= 1
            continue
        if "debug_assert" in s or "verif::" in s or "assert!(" in s or "assert_eq!(" in s or "unreachable!" in s:
            continue
        if "write!(" in s or "format!(" in s or "println!" in s or "panic!(" in s or "expect(" in s:
            continue
        yield i, l
    return


def strip_comment(l):
    k = l.find("//")
    return l if k < 0 else l[:k]


def sites(path):
    out = []
    for i, l in code_lines(path):
        code = strip_comment(l)
        for name, rx, rep in OPS:
            for m in re.finditer(rx, code):
                # no mutations inside string literals (rough: odd number of quotes before the match)
                if code[: m.start()].count('"') % 2 == 1:
                    continue
                if name in ("lt->le", "gt->ge") and ("->" in code or "=>" in code or "::<" in code):
                    continue
                out.append((i, name, l[: m.start()] + rep + l[m.end():]))
        for m in NUM.finditer(code):
            if code[: m.start()].count('"') % 2 == 1:
                continue
            t = m.group(1)
            try:
                v = int(t.replace("_", ""), 0)
            except ValueError:
                continue
            nv = hex(v + 1) if t.lower().startswith("0x") else str(v + 1)
            out.append((i, "lit+1", l[: m.start(1)] + nv + l[m.end(1):]))
            if v > 0:
                nv = hex(v - 1) if t.lower().startswith("0x") else str(v - 1)
                out.append((i, "lit-1", l[: m.start(1)] + nv + l[m.end(1):]))
        if CALLQ.match(code) and "let " not in code and "return" not in code:
            out.append((i, "drop-call", re.match(r"\s*", l).group(0) + "// (statement removed)"))
    return out


def run(args):
    amap = anchors()
    files = sorted(amap)
    if args.get("files"):
        files = [f for f in files if f in args["files"].split(",")]
    rnd = random.Random(int(args.get("seed", 1)))
    per_file = int(args.get("per_file", 2))
    chosen = []
    for f in files:
        s = sites(f"{REPO}/{f}")
        rnd.shuffle(s)
        for site in s[:per_file]:
            chosen.append((f, site))
    rnd.shuffle(chosen)
    n = int(args.get("n", len(chosen)))
    chosen = chosen[:n]
    outp = args.get("out", "/verif/mutsweep/results.jsonl")
    done = set()
    if os.path.exists(outp):
        for l in open(outp):
            d = json.loads(l)
            done.add((d["file"], d["line"], d["op"], d["after"]))
    print(f"{len(chosen)} mutants over {len(files)} files", flush=True)
    for k, (f, (i, op, newline)) in enumerate(chosen):
        path = f"{REPO}/{f}"
        orig = open(path).read()
        lines = orig.split("\n")
        before = lines[i]
        if (f, i + 1, op, newline.strip()) in done or newline == before:
            continue
        lines[i] = newline
        rec = {"file": f, "line": i + 1, "op": op, "before": before.strip(), "after": newline.strip(),
               "properties": amap[f]}
        t0 = time.time()
        try:
            open(path, "w").write("\n".join(lines))
            rc, out = sh("cargo build --offline --lib 2>&1", cwd=REPO, env=dict(os.environ, CARGO_NET_OFFLINE="true"))
            if rc != 0:
                rec["status"] = "uncompilable"
            else:
                try:
                    rc, out = sh("cargo test --workspace --no-fail-fast --offline", cwd=REPO, timeout=900,
                                 env=dict(os.environ, CARGO_NET_OFFLINE="true"))
                except subprocess.TimeoutExpired:
                    rc, out = 1, "timeout"
                if rc != 0 and "timeout" != out:
                    # the suite's integration tests use fixed /tmp paths: another suite run on this machine
                    # can make them fail spuriously, so a failure counts only when it repeats
                    try:
                        rc, out = sh("cargo test --workspace --no-fail-fast --offline", cwd=REPO, timeout=900,
                                     env=dict(os.environ, CARGO_NET_OFFLINE="true"))
                    except subprocess.TimeoutExpired:
                        rc, out = 1, "timeout"
                if rc != 0:
                    rec["status"] = "suite"
                else:
                    ids = sorted(amap[f], key=lambda x: COST.get(x, 99))
                    rc, out = build_harness(any(x in ("C04", "C05", "C06") for x in ids))
                    if rc != 0:
                        rec["status"] = "harness-build-failed"
                    else:
                        rec["status"] = "survived"
                        rec["ran"] = []
                        for pid in ids:
                            try:
                                rc, out = sh(f"{VERIF}/target/release/jbkv check {pid} quick", cwd=f"{VERIF}/harness",
                                             timeout=2400)
                            except subprocess.TimeoutExpired:
                                rc, out = 2, "timeout"
                            rec["ran"].append([pid, rc])
                            if rc == 1 and "VIOLATION" in out:
                                m = re.search(r"sig=(\S+)", out)
                                rec["status"] = "caught"
                                rec["by"] = pid
                                rec["sig"] = m.group(1)[:120] if m else ""
                                break
        finally:
            open(path, "w").write(orig)
            sh(f"rm -rf /dev/shm/mutsweep/* {VERIF}/replays/*")
        rec["secs"] = round(time.time() - t0, 1)
        with open(outp, "a") as o:
            o.write(json.dumps(rec) + "\n")
        print(f"[{k+1}/{len(chosen)}] {f}:{i+1} {op} -> {rec['status']} {rec.get('by','')} ({rec['secs']}s)", flush=True)


def summary(path="/verif/mutsweep/results.jsonl"):
    recs = [json.loads(l) for l in open(path)]
    c = {}
    for r in recs:
        c[r["status"]] = c.get(r["status"], 0) + 1
    print(c)
    for r in recs:
        if r["status"] == "survived":
            print(f"SURVIVED {r['file']}:{r['line']} {r['op']}: {r['before']}  =>  {r['after']}   ran={r.get('ran')}")


if __name__ == "__main__":
    cmd = sys.argv[1]
    kv = {}
    a = sys.argv[2:]
    for j in range(0, len(a) - 1, 2):
        kv[a[j].lstrip("-").replace("-", "_")] = a[j + 1]
    {"setup": setup, "teardown": teardown, "run": lambda: run(kv), "summary": lambda: summary(kv.get("out", "/verif/mutsweep/results.jsonl"))}[cmd]()
