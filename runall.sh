#!/bin/sh
# usage: runall.sh [tier] — every check once with the current VERIF_SEED; one summary line each
TIER="${1:-quick}"
for i in 01 02 03 04 05 06 07 08 09 10 11 12 13 14 15 16; do
  /verif/check C$i $TIER > /tmp/runall-C$i.out 2>&1; rc=$?
  echo "C$i exit=$rc $(grep -m1 -E '^OK|VIOLATION|INCONCLUSIVE' /tmp/runall-C$i.out | cut -c1-170)"
done
