#!/usr/bin/env python3
"""Generates /verif/MANIFEST.json from the table below (kept as a script so the
manifest stays valid while properties are added). Run: python3 mkmanifest.py"""
import json, subprocess, sys

CHECKS = {
    # id: (engine, level, technique, design_ref, level_text, level_note)
    "C01": ("E1-proptest", "exploration",
            "property-based testing (proptest): generated insertion sequences vs. reference model + independent decoder",
            "DESIGN.md 6/C01",
            "Generated insertion sequences (lengths at the offset-width and cluster boundaries, 0..8194 items, all compressions and levels, hints, memory/file/file-range sources, duplicates, dedup adder, BasicCreator in 3 packagings) are created with the real creator, read back with a fresh reader and compared byte for byte with a harness-held model; count, past-the-end addresses and check() are asserted and an independent decoder must find the same bytes. Evidence of absence of counterexamples in the explored set only.",
            "Trusts proptest, the harness model (bytes derived from (seed,len,entropy)), the lz4/xz2/zstd crates used by the independent decoder. lzma>=6 / |zstd|>19 only with <64 KiB of data."),
    "C02": ("E1-proptest", "exploration",
            "property-based testing (proptest): generated schemas/entries vs. reference model + independent decoder",
            "DESIGN.md 6/C02",
            "Generated schemas (0..6 common properties, 0..4 variants of unequal size incl. empty ones, constant columns anywhere, plain/indexed/shared value stores, inline prefix 0..31) and entry sets (integers at every byte-width boundary and both signs, arrays at length-width boundaries, content addresses at id-width boundaries, 0..600 entries, thousands in the thorough tier; value-store key-width and tail-size boundaries as fixed cases) are written with the real creator and read back through every index window with the real reader and with the independent decoder; both must equal the model, nothing may be visible beyond a window, a property of another variant answers None; the one unrepresentable in-range input (indexed store tail > 65535 bytes) must make creation fail.",
            "Trusts proptest and the harness model; sorted stores only get distinct key tuples (documented precondition); schema limits documented in the code (prefix<=31, arrays<=0xFFFFFF) are respected by the generator."),
    "C03": ("E1-proptest", "exploration",
            "property-based testing (proptest) + bounded exhaustive enumeration of the search",
            "DESIGN.md 6/C03",
            "Generated sorted stores (1-3 keys over unsigned/signed/array properties, key pools with shared prefixes around the inline prefix length, 0x00/0xff, empty key) are created and the stored order is compared with the model's independent sort and, pairwise, with the reader's own comparison; present and derived absent keys are looked up in every window with binary and linear search, which must agree with the model and with each other. RangeTrait::find itself is enumerated exhaustively for n<=12 entries x every window x every probe position x both modes.",
            "Trusts proptest and the harness comparator (numeric for integers, lexicographic on the whole byte string for arrays); thousands of keys only in the thorough tier."),
    "C15": ("E1-proptest", "exploration",
            "property-based testing (proptest): generated reference graphs vs. model of final positions",
            "DESIGN.md 6/C15",
            "Generated entry sets with Ref columns (Vow/Bound created before any entry so forward, backward, self references and chains exist; constant Ref columns), sorted and unsorted, up to 6000 entries (parallel sort and parallel index assignment); the value read back for a Ref column (real reader and independent decoder) must be the model's final position of the target, and every Bound returned by add_entry must report its entry's final position after finalisation.",
            "Trusts proptest and the harness' independent sort of the distinct keys; rayon scheduling inside the creator is not controlled, only exercised (sizes above its sequential thresholds)."),
    "C13": ("E1-proptest", "exploration",
            "property-based testing (proptest): generated view programs vs. slice arithmetic on the known bytes",
            "DESIGN.md 6/C13",
            "Generated view programs (nested cut to depth >=3, as_slice, ByteSlice->ByteRegion, get_slice, streams through stream() and From<ByteRegion> with generated read-size sequences) are run over a stored content that is not the first blob of its source, for sources memory / file / moved-to-memory (mmap >= 4 KiB) / lz4, lzma, zstd background-decoded clusters / a harness-fed decoder region; every view must yield exactly the model slice and consistent size/offset/size_left accounting.",
            "Trusts proptest and slice arithmetic on content bytes the harness derived itself; short reads are accepted (Read contract); out-of-range arguments are caller errors and not generated; the mmap source needs the cfg(jubako_verif) in_memory hook."),
    "C16": ("E1-proptest", "exploration",
            "property-based testing (proptest): generated hint sequences vs. independent decode of the cluster layout",
            "DESIGN.md 6/C16",
            "Generated insertion sequences mixing hints, all algorithms and levels, with and without the dedup adder; the independent decoder locates every content on disk: hint No / uncompressed pack => cluster nibble 0 and the bytes verbatim in the file; hint Yes in a compressing pack => cluster nibble of the pack's algorithm and a payload that the algorithm's own library decodes to the content; dedup adder => same address iff same bytes, one stored content per distinct byte string.",
            "Trusts the independent decoder (no jubako code) and the lz4/xz2/zstd crates; Detect is only required to round-trip."),
    "C10": ("E1-proptest", "exploration",
            "property-based testing (proptest): metamorphic relation over packagings/concat orders/prefixes + reference model",
            "DESIGN.md 6/C10",
            "One generated logical container (contents, up to 2 extra packs, linked directory) is produced in the three packagings and transformed: concat of the separate files in every order (all permutations, 24 sampled beyond 4 files), concat of concats, a one-file container behind 1..8192 foreign bytes (random, text, ELF, 'jbk' look-alike), and a concat placed next to a damaged copy at the recorded location. Every form must open, equal the model entry by entry and byte by byte, and verify.",
            "Trusts proptest and the harness model. A prefix that is itself a complete valid Jubako pack is excluded (the reader rightly finds that pack first)."),
    "C11": ("E1-proptest", "exploration",
            "property-based testing (proptest) with exhaustive enumeration of unavailable subsets x kinds per container",
            "DESIGN.md 6/C11",
            "For generated containers with 1-3 separately stored content packs, every non-empty subset of them is made unavailable in each of four ways (deleted, directory, foreign valid container, foreign valid bare pack; plus a mixed assignment). The container must open, all entries and all contents of available packs equal the model, contents of unavailable packs answer MISSING with the manifest's pack id/uuid/location (taken from the independent decoder), get_pack beyond the max id is None, check() is true.",
            "Trusts proptest, the harness model and the independent decoder for the manifest facts. Only the kinds of unavailability the property names are generated (a garbage file at the location is C06 territory)."),
    "C12": ("E1-proptest", "exploration",
            "stateful property-based testing (proptest): generated rewrite histories vs. model map + byte diff + independent decoder",
            "DESIGN.md 6/C12",
            "Generated histories of set_location (listed or unknown pack; empty, ASCII and multi-byte UTF-8 locations up to exactly 213 bytes, restore) and reopen are applied to manifests standalone or inside container files at small and large offsets; after every step the return value, the byte diff against the previous file (only bytes 38..256 of that pack info may change), the library's view of all pack infos, ManifestPack::check, ContainerPack::check, the independent decoder's CRC/blake3 verification and, when the directory pack is reachable, the full container content are compared with the model.",
            "Trusts proptest, the model map and the independent decoder. Locations longer than 213 bytes are inadmissible and not generated. Container-level reads are only asserted while the directory pack is reachable."),
    "C14": ("E1-proptest", "exploration",
            "property-based testing (proptest) with a differential oracle: independent decoder vs. model; committed reference corpus vs. current reader",
            "DESIGN.md 6/C14 and 3",
            "(a) Generated containers written by the current creator are decoded, file by file, by an independent decoder that shares no code with the library and asserts the on-disk layout (a change applied symmetrically to writer and reader passes round-trips but fails here); it must recover exactly the model. (b) 60 reference containers written by the pinned version (all packagings, compressions, store kinds, property kinds, variants, sorted stores, references, extra packs) are read by the current reader and must dump to the committed expected content and verify.",
            "Trusts the independent decoder (written from spec/*.rst, divergences documented in DESIGN.md 3 and confirmed by a separate Python decode) and the blake3/lz4/xz2/zstd crates. Corpus cases are those the pinned writer wrote correctly (decoder == model); produced from fc3306d plus the cfg-guarded hooks commit only."),
    "C04": ("E2-fault-enumerator", "fault_enumeration",
            "fault enumeration: every byte of every checked range x masks + seeded multi-edit scripts, reader child processes",
            "DESIGN.md 6/C04 and 4.1",
            "For 24 small containers (2 shapes x 3 packagings x 4 compressions; larger generated ones in the thorough tier) the independent decoder gives every pack's checked range and check block; every byte position in them is altered with three masks, plus seeded scripts of 2-8 simultaneous xor/zero/overwrite edits. The pristine containers must pass every pack check, file check and Container::check; after an alteration the check of that pack and the container check must answer false or an error, never success (manifest location bytes exempt).",
            "Trusts the independent decoder's map of checked ranges; reader child deaths are C06's domain (counted, not judged here); edits that change no byte or only exempt bytes are not required to fail."),
    "C05": ("E2-fault-enumerator", "fault_enumeration",
            "fault enumeration: every byte of every file x masks + seeded range scripts, access-by-access differential against the pristine dump",
            "DESIGN.md 6/C05 and 4.1",
            "Every byte position of every file of 24 small containers is altered with three masks, plus seeded zero/overwrite/xor scripts stratified per on-disk structure; a reader child produces an access-by-access dump (pack count, content counts, index headers, every entry, content sizes and hashes). Each structural answer must equal the pristine one or be an error; content bytes may differ only when the container check then fails.",
            "Same-length alterations only (truncation/garbage are C06). CRC-32 misses a random multi-byte overwrite with probability 2^-32. Re-checksummed content and block transplants are outside the claim."),
    "C06": ("E2-fault-enumerator", "fault_enumeration",
            "fault enumeration in two build profiles: every truncation length, every byte x masks, whole-file replacement, appended garbage, seeded range scripts; process-outcome validity predicate",
            "DESIGN.md 6/C06, 2.4, 2.6",
            "For small containers of all four compressions and three packagings: every truncation length of every file, every byte position x masks, replacement by empty/random/text/'jbkC'-prefixed/another valid container, appended garbage and seeded range scripts are read by a child without catch_unwind in a debug-assertions+overflow-checks build and in a release build (open, dump everything, stream every content whole and in 7-byte reads, run all checks). A panic, abort, signal, a process blocked forever (all threads asleep, no cpu) or a decode loop that stops advancing is a violation; a plain timeout is inconclusive.",
            "Blocked/no-progress use the sound criteria of DESIGN 2.6 (the no-progress criterion needs the cfg(jubako_verif) dec.pre_publish hook). Adversarially re-checksummed files are outside the claim."),
    "C09": ("E3-crash-points", "fault_enumeration",
            "crash-point enumeration: LD_PRELOAD write-budget shim (kill / ENOSPC at every byte offset of the output stream), destination-state validity predicate + reference model",
            "DESIGN.md 6/C09 and 4.2",
            "BasicCreator runs in a child under a shim that lets exactly B bytes reach the files of the destination directory, then kills the process or fails every write with ENOSPC; B ranges over every byte offset of the write stream for tiny containers in the three packagings (stride + every write boundary for larger ones), with a fresh destination and with a previous complete container of other content in place. Afterwards the entry point must be absent (fresh only), byte-identical to the previous file, or a container that opens, verifies and equals the model of the new content; with B >= total creation must succeed.",
            "Crash = process termination or write error (page cache survives; no power-loss claim). rename itself is not failed (invisible to the shim). The shim self-checks on a fault-free run (bytes seen >= final sizes, result equals the model) or the run is inconclusive."),
    "C08": ("E4-schedules", "exploration",
            "property-based testing (proptest) over schedules: seeded perturbation plans inside Progress callbacks x CPU-affinity-controlled worker counts; metamorphic + model oracle",
            "DESIGN.md 6/C08",
            "Generated insertion sequences (3..60 clusters mixing raw and compressed, queues shorter and longer than the back-pressure limit) are created 4-6 times each under different perturbation plans (delays injected on the main, worker and writer threads through the public Progress trait) and visible CPU counts 1..15 (sched_setaffinity => 1..14 workers). Every run must terminate, return the same addresses, resolve every address to its own bytes in a fresh reader, verify, and lay clusters out inside the file without overlap (independent decoder). A case counts only when at least two of its runs wrote clusters in different file orders.",
            "Completion orders are sampled through delays, not enumerated; evidence reports the number of distinct orders per case. No hook needed (public Progress trait)."),
    "C07": ("E4-schedules", "exploration",
            "property-based testing over schedules: bounded exhaustive enumeration of harness-owned publication schedules of the real decoder + seeded perturbation of concurrent readers at cfg(jubako_verif) schedule points; value oracle",
            "DESIGN.md 6/C07",
            "S2 runs the real SeekableDecoder over a producer that releases chunks only when the harness says so and enumerates every interleaving of chunk releases and reader starts (2-3 readers, ranges ending on the chunk boundaries +-1, get_slice and stream reads): exact bytes, and every reader returns once everything is published (lost wake-up detection). S1 runs 2-16 reader threads with generated op lists over packs with more compressed clusters than cache slots and pool threads, under seeded delays injected at the publication, wake-up, slice, cache-lock and plain-reader-construction points: every read must return exactly the stored bytes and every thread must finish.",
            "Interleavings finer than the hook points are sampled, not enumerated; x86 hardware; the ThreadSanitizer build of the same scenarios is part of the thorough tier when it is available. Needs the cfg(jubako_verif) hooks."),
}

NOT_YET = {
}


# additions made after the rounds of seeded changes and the mutation sweep (DESIGN 0, 13)
EXTRA = {
    "C01": "Sources include file ranges without a size and file-backed contents at cluster openings. 6 fixed cases with one content of 2^24 bytes or more in a compressed cluster; a pack of 45 full clusters (more than the reader's cluster cache holds) read back in order.",
    "C02": "Variants are also read through the typed path with reader types knowing only some variants; Index::is_empty; index free data/key looked for by the independent decoder; late duplicates in value stores; signed references. Every property is also read through its specialised builder (IntProperty/SignedProperty/ArrayProperty/ContentProperty); every second index is created with a lazy offset (the handle of an entry). An array of exactly 2^24 bytes must be refused or stored unaltered.",
    "C03": "Every probe also goes through the library's PropertyCompare, including on a column the store is not sorted on; width-alias probes (key + 2^8/2^16/2^32).",
    "C04": "Entry points asked after every alteration: the pack's check, Container::check and the file-level ContainerPack::check; CRC-fixing edits; bases with >4 KiB tables, two content packs in one file, two content packs sharing one external file, a pack stored twice. The live phase also asks check() of the pack objects the container hands out, before and after the alteration. Packs are handed to ContainerPackCreator::add_pack through a reader returning short reads.",
    "C05": "Big-table bases (mmap path), large compressed clusters, hand-assembled multi-pack bases with free data; the manifest pack opened on its own (pack list, free data by id and uuid) is part of the compared answers. Bases whose blocks are exact multiples of 1 KiB; loose pack files opened one by one on whole-file readers. A base with twelve indexes; 'no such index' is compared as a structural answer. The big-directory base holds 10 000 entries (entry data above 64 KiB).",
    "C06": "Concurrent readers in the reader child (several sleepers on one failing decoder); replacement of a pack by another valid container; sound blocked-forever criterion. Loose pack files of the low-level creators (incl. an empty content pack) opened on whole-file readers; bases with exact-KiB blocks. Sound spinning-forever criterion (exactly one thread awake, thousands of system calls all of them sched_yield in two traced windows more than 20 s apart); a base with two indexes over one store. Thorough tier: a base of 270 000 contents (tables above 1 MiB).",
    "C07": "S3: readers that are rayon workers (own pools of 1-6 threads and the global pool); regions held across cache evictions; uncompressed file-backed packs. S4: threads released together on the entry/value stores of a freshly opened container (shared storages). S5 hammer: up to 16 threads x 60 000 tiny reads on one pack, jumping between clusters. S6: long-lived reader threads under which two packs with different bytes under the same content numbers are opened and closed in turn. S7: up to 32 threads released together on one compressed cluster nobody has asked for, 500..1500 fresh pack objects per case.",
    "C08": "C16's storage oracle inside every perturbed run; very slow workers; file-backed contents at cluster openings. Lone incompressible clusters at offset-width boundaries, hint-Detect segments, file sub-range sources. Single contents of 9/17/33 MiB with 1, 2, 3 and 15 visible cpus. A producer pausing for 2.6 s and 4.6 s in the middle of a creation.",
    "C09": "Rename obstruction and unreadable-input faults next to process death and ENOSPC. Retry after a crash (a smaller container created among the leftovers of a killed run); entry-point names of 150..250 bytes. Entry-point names holding a backslash, a colon, a space and %, non-ASCII letters.",
    "C10": "Prefix before concat outputs, concat of concats, external pack files behind a prefix, extra packs in sub- and sibling directories, pack ids across 255/256 and 65535; independent decoder on concat outputs. File names with ':' ' ' '%' '#' '?' non-ASCII letters, several dots, no extension; contents asked again on a fresh container last pack first. Every second case embeds the entry point of the multi-file packagings itself at the end of a foreign file. Half of the prefixes end around multiples of 16 KiB; concat of a file followed by a bundle that contains it. The entry point opened through a symbolic link with the other packs beside the link.",
    "C11": "Five causes of unavailability incl. a location pointing at another pack; a damaged present pack next to an absent one; alternative packs sharing an id. Contents asked again last pack first; a missing pack put back while the container is open. Every answer is cross-checked through MayMissPack::transpose / get / map / as_ref and get_pack. Sixth kind of unavailability: the twin (same container built again: same sizes, other uuids); replaced packs are put back under the open container. Four concurrent readers on a container with a missing pack; a location respelled as a file: URL (missing, or served and then covered by the check).",
    "C12": "Low-level containers with large free data, directory pack not declared first, manifests of 270/300 packs with every location rewritten. The pack-info array at every offset modulo 256 (301 fixed cases); a container kept open across the rewrites. Locations holding the character U+0000. 86 (thorough: 256) manifests of 260 packs move the 64 KiB mark of the check stream over the bytes of a pack info. Locations that look like URLs or drive paths.",
    "C13": "Streams disturbed between reads by other accesses to the same source. Views longer than 65535 bytes.",
    "C14": "Many-packs containers (3/255/300) with distinct free data in every header and in the manifest, compared by the independent decoder and read back by id and uuid. Indexes created with lazy offsets; typed property builders. Many-packs cases in which every pack, the directory pack included, carries free data.",
    "C15": "Trees sorted on the reference itself, plain and bound values in one column, signed references, cross-store references (referenced store of up to 30000 entries). A tree whose roots carry a plain number k > 0 may be refused by the creator (no consistent order need exist): accepted as a refusal, counted. Every second tree lives in a store of boxed entries.",
    "C16": "Same-hint runs filling raw clusters, near-duplicates of cluster size for the dedup adder; the storage oracle also runs under C08's schedules. 435 fixed tiny compressed clusters per run (stored size sometimes equal to the data size). 70 000 distinct contents between two insertions of the same bytes through the dedup adder.",
}

def main():
    props = [json.loads(l) for l in open('/verif/properties.jsonl')]
    hooks_commits = []
    try:
        out = subprocess.run(['git', '-C', '/repo', 'log', '--format=%h %s'], capture_output=True, text=True).stdout
        hooks_commits = [l.split()[0] for l in out.splitlines() if l.split(' ', 1)[1].startswith('verif:')]
    except Exception:
        pass
    checks = []
    na = []
    for p in props:
        pid = p['id']
        if pid in CHECKS:
            eng, level, tech, ref, text, note = CHECKS[pid]
            checks.append({
                "property_id": pid,
                "quick_cmd": f"./check {pid} quick",
                "thorough_cmd": f"./check {pid} thorough",
                "evidence_file": f"/verif/evidence/{pid}.json",
                "replay_cmd_template": f"./check {pid} --replay {{path}}",
                "engine": eng,
                "level_claimed": {"category": level, "text": (text + " Also: " + EXTRA[pid]) if pid in EXTRA else text, "design_ref": ref},
                "level_note": note,
                "technique": tech,
            })
        else:
            na.append({"property_id": pid, "reason": NOT_YET.get(pid, "check not built yet in this session (planned, see DESIGN.md 6); not claimed until it exists and is silent on the unchanged tree")})
    m = {
        "version": 1,
        "setup_cmd": "./setup.sh",
        "hooks": {
            "guard": "--cfg jubako_verif",
            "enable": "RUSTFLAGS='--cfg jubako_verif' via /verif/.cargo/config.toml (build.rustflags); the harness depends on jubako by path=/repo",
            "baseline_off_cmd": "cd /repo && cargo test --workspace --no-fail-fast --offline",
            "source_commits": hooks_commits,
            "add_only": True,
        },
        "engines": [
            {"name": "E1-proptest", "path": "harness/src/engine.rs", "serves_properties": [c for c in CHECKS if CHECKS[c][0] == "E1-proptest"], "kind_free_text": "proptest TestRunner workers in child processes, seeded from VERIF_SEED; shrunk failing case saved as JSON replay"},
            {"name": "E2-fault-enumerator", "path": "harness/src/faults.rs", "serves_properties": [c for c in CHECKS if CHECKS[c][0] == "E2-fault-enumerator"], "kind_free_text": "byte-alteration enumerator (exhaustive on small containers, seeded sampling on larger), reader child processes in dbg and release profiles"},
            {"name": "E3-crash-points", "path": "shim/faultfs.c", "serves_properties": [c for c in CHECKS if CHECKS[c][0] == "E3-crash-points"], "kind_free_text": "LD_PRELOAD write-budget shim: process death / ENOSPC at every byte offset of the output stream"},
            {"name": "E4-schedules", "path": "harness/src/props", "serves_properties": [c for c in CHECKS if CHECKS[c][0] == "E4-schedules"], "kind_free_text": "seeded schedule perturbation through cfg(jubako_verif) hooks / Progress callbacks; harness-owned chunk release order"},
        ],
        "checks": checks,
        "not_applicable": na,
        "notes": "All checks: ./check <ID> <quick|thorough>; exit 0 held, 1 VIOLATION (replay file printed), 2 inconclusive. Known findings: /verif/known_findings.txt. Replays: ./check <ID> --replay <file>.",
    }
    json.dump(m, open('/verif/MANIFEST.json', 'w'), indent=1)
    try:
        import jsonschema
        jsonschema.validate(m, json.load(open('/root/.vp/MANIFEST.schema.json')))
        print("MANIFEST.json valid;", len(checks), "checks,", len(na), "not claimed")
    except ImportError:
        print("jsonschema not available; written without validation")

if __name__ == '__main__':
    main()
