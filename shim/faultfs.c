/* faultfs.so — LD_PRELOAD write-budget shim (DESIGN 4.2), engine E3 of /verif.
 *
 * Interposes the libc entry points through which a process writes to regular files
 * (write, pwrite/pwrite64, writev, copy_file_range, sendfile/sendfile64) and applies a
 * process-wide byte budget to files living under JBKV_DIR:
 *   - the call that crosses the budget is shortened to the remaining bytes (a legal
 *     short write);
 *   - every later call kills the process (JBKV_MODE=kill) or fails with ENOSPC
 *     (JBKV_MODE=enospc) from then on;
 *   - JBKV_MODE=count only counts and, at exit, appends
 *     "bytes=<n> calls=<n> bounds=<b1>,<b2>,..." to JBKV_REPORT.
 * rename/link are not interposed (tempfile uses raw syscalls through rustix): killing at
 * the first write after / the last write before a rename yields the two destination states
 * a crash around it can leave.
 */
#define _GNU_SOURCE
#include <dlfcn.h>
#include <errno.h>
#include <signal.h>
#include <stdio.h>
#include <stdlib.h>
#include <string.h>
#include <sys/stat.h>
#include <sys/types.h>
#include <sys/uio.h>
#include <unistd.h>
#include <pthread.h>

static pthread_mutex_t mu = PTHREAD_MUTEX_INITIALIZER;
static int inited = 0;
static int mode = 0; /* 0 count, 1 kill, 2 enospc */
static long long budget = -1;
static long long seen = 0;
static long long calls = 0;
static int exhausted = 0;
static char dirpfx[4096];
static size_t dirlen = 0;
static char report[4096];
#define MAXB 200000
static long long bounds[MAXB];
static int nbounds = 0;

static void init(void) {
    if (inited) return;
    inited = 1;
    const char *e = getenv("JBKV_MODE");
    if (e) { if (!strcmp(e, "kill")) mode = 1; else if (!strcmp(e, "enospc")) mode = 2; }
    e = getenv("JBKV_BUDGET");
    if (e) budget = atoll(e);
    e = getenv("JBKV_DIR");
    if (e) { strncpy(dirpfx, e, sizeof(dirpfx) - 1); dirlen = strlen(dirpfx); }
    e = getenv("JBKV_REPORT");
    if (e) strncpy(report, e, sizeof(report) - 1);
}

__attribute__((destructor)) static void fini(void) {
    if (!inited || !report[0]) return;
    FILE *f = fopen(report, "a");
    if (!f) return;
    fprintf(f, "bytes=%lld calls=%lld bounds=", seen, calls);
    for (int i = 0; i < nbounds; i++) fprintf(f, i ? ",%lld" : "%lld", bounds[i]);
    fprintf(f, "\n");
    fclose(f);
}

static int tracked(int fd) {
    struct stat st;
    char link[64], path[4096];
    if (fd <= 2) return 0;
    if (fstat(fd, &st) != 0 || !S_ISREG(st.st_mode)) return 0;
    if (!dirlen) return 1;
    snprintf(link, sizeof(link), "/proc/self/fd/%d", fd);
    ssize_t n = readlink(link, path, sizeof(path) - 1);
    if (n <= 0) return 0;
    path[n] = 0;
    return strncmp(path, dirpfx, dirlen) == 0;
}

/* returns the number of bytes this call may write (<= want), or -1 to fail the call */
static long long admit(long long want) {
    long long allowed = want;
    pthread_mutex_lock(&mu);
    init();
    calls++;
    if (mode != 0 && budget >= 0) {
        if (exhausted || seen >= budget) {
            exhausted = 1;
            if (mode == 1) { pthread_mutex_unlock(&mu); kill(getpid(), SIGKILL); for (;;) pause(); }
            pthread_mutex_unlock(&mu);
            errno = ENOSPC;
            return -1;
        }
        if (seen + want > budget) allowed = budget - seen;
    }
    pthread_mutex_unlock(&mu);
    return allowed;
}

static void account(long long done) {
    if (done <= 0) return;
    pthread_mutex_lock(&mu);
    seen += done;
    if (nbounds < MAXB) bounds[nbounds++] = seen;
    pthread_mutex_unlock(&mu);
}

ssize_t write(int fd, const void *buf, size_t n) {
    static ssize_t (*real)(int, const void *, size_t);
    if (!real) real = dlsym(RTLD_NEXT, "write");
    if (!tracked(fd) || n == 0) return real(fd, buf, n);
    long long a = admit((long long)n);
    if (a < 0) return -1;
    ssize_t r = real(fd, buf, (size_t)a);
    account(r);
    return r;
}

ssize_t pwrite64(int fd, const void *buf, size_t n, off64_t o) {
    static ssize_t (*real)(int, const void *, size_t, off64_t);
    if (!real) real = dlsym(RTLD_NEXT, "pwrite64");
    if (!tracked(fd) || n == 0) return real(fd, buf, n, o);
    long long a = admit((long long)n);
    if (a < 0) return -1;
    ssize_t r = real(fd, buf, (size_t)a, o);
    account(r);
    return r;
}

ssize_t pwrite(int fd, const void *buf, size_t n, off_t o) {
    return pwrite64(fd, buf, n, (off64_t)o);
}

ssize_t writev(int fd, const struct iovec *iov, int cnt) {
    static ssize_t (*real)(int, const struct iovec *, int);
    if (!real) real = dlsym(RTLD_NEXT, "writev");
    if (!tracked(fd)) return real(fd, iov, cnt);
    /* turn into a plain write of the first non-empty buffer (a legal short write) */
    for (int i = 0; i < cnt; i++)
        if (iov[i].iov_len) return write(fd, iov[i].iov_base, iov[i].iov_len);
    return 0;
}

ssize_t copy_file_range(int in, off64_t *oin, int out, off64_t *oout, size_t n, unsigned flags) {
    static ssize_t (*real)(int, off64_t *, int, off64_t *, size_t, unsigned);
    if (!real) real = dlsym(RTLD_NEXT, "copy_file_range");
    if (!tracked(out) || n == 0) return real(in, oin, out, oout, n, flags);
    long long a = admit((long long)n);
    if (a < 0) return -1;
    ssize_t r = real(in, oin, out, oout, (size_t)a, flags);
    account(r);
    return r;
}

ssize_t sendfile64(int out, int in, off64_t *o, size_t n) {
    static ssize_t (*real)(int, int, off64_t *, size_t);
    if (!real) real = dlsym(RTLD_NEXT, "sendfile64");
    if (!tracked(out) || n == 0) return real(out, in, o, n);
    long long a = admit((long long)n);
    if (a < 0) return -1;
    ssize_t r = real(out, in, o, (size_t)a);
    account(r);
    return r;
}

ssize_t sendfile(int out, int in, off_t *o, size_t n) {
    return sendfile64(out, in, (off64_t *)o, n);
}
